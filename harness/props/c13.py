"""C13 - Text report, machine-readable output and totals agree.

proof:   Props/C13.lean about Model/Report.lean (renderer of osaca/frontend.py) and Spec/ReportView.lean
         (reader of the report), for constants regenerated from the source (Gen/ReportConsts).
tie:     translator + correspondence: the text printed by the real Frontend / osaca.inspect is compared
         byte for byte with the model renderer applied to the values read off the implementation's
         objects; the model's view of the machine-readable output with the real full_analysis_dict /
         --yaml-out document; the model's expected reading (`view`) with the reading of the real text.
search:  the real report text is read back (Spec.Report.parseTable / parseLcdList / detectWarnings in the
         driver) and compared with the real machine-readable output through Spec.Report.shownOk; option
         logic (warnings, default model, totals vs --ignore-unknown) against the call's own options.
levels:  1 = Frontend on synthetic analyses (any ports / magnitudes, high volume);
         2 = osaca.inspect end to end on shipped examples, test kernels and generated files;
         3 = from FILE TEXT to the report inside the model (harness/e2e.py): `--fixed` (e2e.x86 / e2e.a64) and the default
             optimal scheduling (e2e.opt: `analyseWith` on the implementation's pressures, admissibility of the first pass).
"""
import glob
import io
import json
import os
import time

from harness import core
from harness import c13lib as L
from harness import e2e
from harness.core import esc

TRUSTED = [
    "Lean 4.33 kernel; axioms of every theorem audited (allowed: propext, Classical.choice, Quot.sound)",
    "tools/gen/reportconsts.py: AST extraction / constant evaluation of the literals of frontend.py and osaca.py",
    "correspondence harness harness/props/c13.py + harness/c13lib.py (reading values off the implementation's "
    "objects, generators, comparison)",
    "modelled, not verified: Python str(float)/repr (passed as text next to the exact value), format() of floats "
    "(assumed correctly rounded, ties-to-even on the exact binary value), str.strip/replace/ljust, re.search(r'\\d+'), "
    "dict order, ruamel's YAML dump/load of the --yaml-out file",
    "model domain: doubles with positional repr (0 or 1e-4 <= |x| < 1e16) other than -0.0, ASCII lines; inputs "
    "outside are only checked by the oracle and counted",
    "end to end (harness/e2e.py, Driver/EndToEnd.lean): the driver's repr(float) (pyRepr: nearest double, shortest "
    "round-trip decimal) is an input of the report model tied by the byte-for-byte comparison; Gen/IsaDb_x86 and "
    "Gen/IsaDb_aarch64 are the shipped isa/x86.yml and isa/aarch64.yml (tied by C03's rolesdbcmp); glue domain of "
    "Model/Glue.lean (x86: no indexed registers, segment extensions, identifier displacements in compared memory operands; "
    "AArch64: no identifier / float offsets or symbolic post-index in memory operands, float immediates only where no "
    "operation reads them, no port_pressure alternatives)",
    "optimal scheduling (e2e.opt): the balancer ArchSemantics.assign_optimal_throughput is not modelled as a function; the "
    "implementation's per-line port_pressure after its two calls (captured by wrapping the method) is an INPUT of "
    "EndToEnd.analyseWith, judged by Spec.checkFeasible against the line's micro-ops (slack INC/2 per micro-op + 1e-9); the "
    "state after the second call is only counted when inadmissible (known C01 finding `second-pass`), so are lines whose "
    "micro-ops carry a throughput multiplier < 1 (finding, notes/EndToEnd.md); totals whose float sum sits on a rounding tie "
    "may show either neighbour",
]

QUICK_ARCHS = ["spr", "v2", "zen2", "tx2"]
E2E_SHIPPED = ["zen2", "spr"]      # shipped x86 models of the end-to-end correspondence (restricted to the reachable forms)
E2E_SHIPPED_A64 = ["tx2", "a64fx"]  # shipped AArch64 models of the end-to-end correspondence


# ------------------------------------------------------------------------------------------- plumbing
def mask_stamp(text):
    lines = text.split("\n")
    stamp = ""
    for i, l in enumerate(lines[:6]):
        if l.startswith("Timestamp:"):
            stamp = l[len("Timestamp:"):].lstrip(" ")
    return stamp


def header_bits(text):
    """version, file, arch, stamp as printed in the first four lines of a report"""
    ls = text.split("\n")
    version = ls[0].split(" - ", 1)[1] if " - " in ls[0] else ""
    vals = []
    for l in ls[1:4]:
        vals.append(l[20:] if len(l) >= 20 else "")
    return version, vals[0], vals[1], vals[2]


class Case:
    """one run of the real report generator with everything observed"""

    def __init__(self, spec):
        self.spec = spec          # JSON-able description (replayable)
        self.text = None          # report text
        self.D = None             # machine-readable output
        self.an = None            # values read off the objects (model input)
        self.dep_dict = None
        self.opts = None          # ignore_unknown, arch_warning, length_warning, lcd_warning actually passed
        self.expect = None        # (arch, length, lcd) warnings expected from the call's options (level 2)
        self.expect_arch_name = None
        self.error = None


def level1_case(spec, mods):
    Frontend, InstructionForm, ArchSemantics = mods
    c = Case(spec)
    kernel, cp, deps = L.build_case(spec, InstructionForm)
    fe = L.make_frontend(Frontend, spec["ports"], "synth", "synthetic.s")
    dg = L.FakeDG(cp, deps)
    o = spec["opts"]
    try:
        c.text = fe.full_analysis(kernel, dg, ignore_unknown=o["ignore_unknown"], arch_warning=o["arch_warning"],
                                  length_warning=o["length_warning"], lcd_warning=o["lcd_warning"])
        c.D = fe.full_analysis_dict(kernel, dg, arch_warning=o["arch_warning"], length_warning=o["length_warning"],
                                    lcd_warning=o["lcd_warning"])
    except Exception as e:  # noqa
        c.error = "%s: %s" % (type(e).__name__, e)
        return c
    c.an = L.extract(spec["ports"], kernel, dg.get_critical_path(), deps, o["ignore_unknown"],
                     ArchSemantics.get_throughput_sum(kernel))
    c.dep_dict = deps
    c.opts = dict(o)
    c.expect = (o["arch_warning"], o["length_warning"], o["lcd_warning"])
    return c


class Recorder:
    """replaces osaca.osaca.Frontend during a level-2 run and keeps what inspect hands to it"""

    def __init__(self, osaca_mod, ArchSemantics):
        self.o = osaca_mod
        self.calls = []
        rec = self
        base = osaca_mod.Frontend

        class RecFrontend(base):
            def full_analysis(self, kernel, kernel_dg, **kw):
                text = base.full_analysis(self, kernel, kernel_dg, **kw)
                ports = self._machine_model.get_ports()
                dd = kernel_dg.get_loopcarried_dependencies()
                rec.calls.append({
                    "text": text, "kw": dict(kw), "dep_dict": dd,
                    "an": L.extract(ports, kernel, kernel_dg.get_critical_path(), dd, kw.get("ignore_unknown", False),
                                    ArchSemantics.get_throughput_sum(kernel)),
                    "kernel_len": len(kernel),
                })
                return text

            def full_analysis_dict(self, kernel, kernel_dg, **kw):
                d = base.full_analysis_dict(self, kernel, kernel_dg, **kw)
                rec.calls[-1]["dict"] = d
                rec.calls[-1]["dict_kw"] = dict(kw)
                return d

        self.base = base
        self.cls = RecFrontend

    def __enter__(self):
        self.o.Frontend = self.cls
        return self

    def __exit__(self, *a):
        self.o.Frontend = self.base


def level2_case(ctx, spec, mods2):
    """spec: {level:2, asm, isa, arch|None, fixed, ignore_unknown, lines|None, marked, nonblank}"""
    o, ArchSemantics, YAML = mods2
    c = Case(spec)
    work = ctx.env.work
    path = os.path.join(work, "k%d.s" % level2_case.n)
    ypath = os.path.join(work, "k%d.yml" % level2_case.n)
    level2_case.n += 1
    with open(path, "w") as f:
        f.write(spec["asm"])
    argv = []
    if spec.get("arch"):
        argv += ["--arch", spec["arch"]]
    if spec.get("fixed"):
        argv.append("--fixed")
    if spec.get("ignore_unknown"):
        argv.append("--ignore-unknown")
    if spec.get("lines"):
        argv += ["--lines", spec["lines"]]
    argv += ["--yaml-out", ypath, path]
    parser = o.create_parser()
    args = parser.parse_args(argv)
    out = io.StringIO()
    try:
        o.check_arguments(args, parser)
        with Recorder(o, ArchSemantics) as rec:
            o.run(args, output_file=out)
    except Exception as e:  # noqa  (crashes of the analysis itself are other properties' business)
        c.error = "%s: %s" % (type(e).__name__, str(e)[:200])
        return c
    finally:
        args.file.close()
        if args.yaml_out is not None:
            args.yaml_out.close()
    if len(rec.calls) != 1 or "dict" not in rec.calls[0]:
        c.error = "inspect did not produce text and dict from one Frontend"
        return c
    call = rec.calls[0]
    printed = out.getvalue()
    c.text = printed[:-1] if printed.endswith("\n") else printed
    if c.text != call["text"]:
        c.error = "printed text differs from full_analysis() result"
        return c
    try:
        c.D = YAML(typ="unsafe", pure=True).load(open(ypath))
    except Exception as e:  # noqa
        c.error = "yaml-out not loadable: %s" % e
        return c
    c.D_inproc = call["dict"]
    c.an = call["an"]
    c.dep_dict = call["dep_dict"]
    kw = call["kw"]
    c.opts = {"ignore_unknown": kw.get("ignore_unknown", False), "arch_warning": kw.get("arch_warning", False),
              "length_warning": kw.get("length_warning", False), "lcd_warning": kw.get("lcd_warning", False)}
    c.dict_kw = call["dict_kw"]
    # expectations from the options of the call (the property's wording)
    exp_arch = not spec.get("arch")
    exp_len = (not spec.get("lines")) and (not spec["marked"]) and spec["nonblank"] > 100
    c.expect = (exp_arch, exp_len, c.opts["lcd_warning"])
    c.kernel_len = call["kernel_len"]
    c.expect_arch_name = spec.get("arch") or None
    for p in (path, ypath):
        try:
            os.remove(p)
        except OSError:
            pass
    return c


level2_case.n = 0


# ------------------------------------------------------------------------------------------- evaluation
def evaluate(ctx, cases, tag):
    """correspondence + oracle for a batch of cases (one driver process per phase)"""
    drv = ctx.driver
    live = [c for c in cases if c.error is None]
    for c in cases:
        if c.error is not None:
            ctx.count(tag + "_impl_errors")
            ctx.cov["distribution"].setdefault("impl_errors", {})
            k = c.error.split(":")[0]
            ctx.cov["distribution"]["impl_errors"][k] = ctx.cov["distribution"]["impl_errors"].get(k, 0) + 1
    reqs = []
    idx = []
    for i, c in enumerate(live):
        reqs.append("c13parse " + esc(c.text)); idx.append((i, "parse"))
        reqs.append("c13lcd " + esc(c.text)); idx.append((i, "lcd"))
        reqs.append("c13warn " + esc(c.text)); idx.append((i, "warn"))
        c.in_domain = not c.an["problems"] and c.text.isascii()
        if c.in_domain:
            version, fname, arch, stamp = header_bits(c.text)
            ea = L.enc_analysis(c.an)
            o = c.opts
            b = lambda x: esc("1" if x else "0")  # noqa
            reqs.append("c13report %s %s %s %s %s %s %s %s" % (esc(version), esc(fname), esc(arch), esc(stamp),
                                                            b(o["arch_warning"]), b(o["length_warning"]),
                                                            b(o["lcd_warning"]), ea)); idx.append((i, "report"))
            reqs.append("c13view " + ea); idx.append((i, "view"))
            reqs.append("c13lcdview " + ea); idx.append((i, "lcdview"))
            dk = getattr(c, "dict_kw", None) or o
            reqs.append("c13dict %s %s %s %s" % (b(dk.get("arch_warning")), b(dk.get("length_warning")),
                                                b(dk.get("lcd_warning")), ea)); idx.append((i, "dict"))
        else:
            ctx.count(tag + "_outside_model_domain")
    replies = drv.ask(reqs)
    R = [dict() for _ in live]
    for (i, k), r in zip(idx, replies):
        R[i][k] = r
    n_corr = 0
    orcs = []
    for c, r in zip(live, R):
        ctx.count(tag + "_cases")
        parsed = L.dec_view(r["parse"])
        lcd = L.dec_lcd(r["lcd"])
        # ---- correspondence (model vs code)
        if c.in_domain:
            model_text = core.unesc(r["report"]) if r["report"].startswith("=") else None
            if model_text != c.text:
                n_corr += 1
                if n_corr <= 3:
                    ctx.correspondence_break(tag + "-report-text", first_diff(model_text, c.text, c.spec))
            if r["view"] != r["parse"]:
                n_corr += 1
                if n_corr <= 3:
                    ctx.correspondence_break(tag + "-view-vs-parse", {"view": r["view"][:400], "parse": r["parse"][:400],
                                                                      "spec": brief(c.spec)})
            if r["lcdview"] != r["lcd"]:
                n_corr += 1
                if n_corr <= 3:
                    ctx.correspondence_break(tag + "-lcd-view-vs-parse", {"view": r["lcdview"][:400], "parse": r["lcd"][:400],
                                                                          "spec": brief(c.spec)})
            msg = dict_corr(c, L.dec_dict(r["dict"]))
            if msg:
                n_corr += 1
                if n_corr <= 3:
                    ctx.correspondence_break(tag + "-dict", {"diff": msg, "spec": brief(c.spec)})
        # ---- oracle (text read back vs machine-readable output)
        orc = L.Oracle()
        L.oracle_table(orc, parsed, c.D, c.opts["ignore_unknown"])
        L.oracle_lcd(orc, lcd, c.dep_dict, c.D)
        n_unknown = sum(1 for k in c.D["Kernel"] if L.UNKNOWN_FLAG in k["Flags"])
        L.oracle_warnings(orc, r["warn"], c.D, c.expect[0], c.expect[1], c.expect[2], n_unknown)
        if c.spec["level"] == 2:
            oracle_level2(ctx, orc, c)
        orcs.append(orc)
    # resolve shownOk requests in one batch
    allreq = []
    for orc in orcs:
        allreq += [q for q, _, _ in orc.shown_reqs]
    answers = drv.ask(allreq) if allreq else []
    pos = 0
    nfail = 0
    for c, orc in zip(live, orcs):
        for (q, what, detail) in orc.shown_reqs:
            if answers[pos] != "1":
                orc.fail(what, detail)
            pos += 1
        ctx.count(tag + "_cells", orc.n_cells)
        ctx.count(tag + "_numbers_checked", orc.n_nonblank)
        if orc.n_nonblank > 0:
            # distinct reports (by text) that show at least one number
            seen = ctx.__dict__.setdefault("_c13_seen", set())
            h = hash(getattr(c, "text", None) or repr(getattr(c, "spec", id(c))))
            if h not in seen:
                seen.add(h)
                ctx.count("reports_with_numbers_distinct")
            if len(ctx.cov["samples"]) < 2 and getattr(c, "text", None):
                ctx.sample({"level": tag, "report_excerpt": "\n".join(c.text.split("\n")[:14])[:1200], "numbers_checked": orc.n_nonblank})
        if orc.failures:
            nfail += 1
            what, detail = orc.failures[0]
            key = finding_key(what)
            if ctx.violation("%s: %s" % (what, json.dumps(detail, default=str)[:300]),
                             {"case": c.spec, "failures": [[w, d] for w, d in orc.failures[:8]],
                              "report_text": c.text[:6000]}, key=key):
                if nfail <= 3:
                    ctx.log("oracle failure (%s): %s %s" % (tag, what, json.dumps(detail, default=str)[:200]))
    ctx.count(tag + "_corr_disagreements", n_corr)
    ctx.count(tag + "_oracle_failures", nfail)
    return n_corr, nfail


def finding_key(what):
    return "c13-" + what


def brief(spec):
    s = dict(spec)
    if "asm" in s:
        s["asm"] = s["asm"][:300]
    if "kernel" in s:
        s = {"ports": s["ports"], "opts": s["opts"], "rows": len(s["kernel"]), "replay": "level-1 spec (seed-determined)"}
    return s


def first_diff(a, b, spec):
    if a is None:
        return {"model": "bad reply", "spec": brief(spec)}
    la, lb = a.split("\n"), b.split("\n")
    for i in range(max(len(la), len(lb))):
        x = la[i] if i < len(la) else None
        y = lb[i] if i < len(lb) else None
        if x != y:
            return {"line": i, "model": x, "impl": y, "spec": brief(spec)}
    return {"spec": brief(spec)}


def dict_corr(c, m):
    """model's view of the machine-readable output vs the real one"""
    D = c.D
    if list(D["Warnings"]) != m["warnings"]:
        return {"warnings": [list(D["Warnings"]), m["warnings"]]}
    K = D["Kernel"]
    if len(K) != len(m["lcd"]):
        return {"rows": [len(K), len(m["lcd"])]}
    for k, l in zip(K, m["lcd"]):
        want = 0.0 if l is None else float(l)
        if float(k["LatencyLCD"]) != want:
            return {"LatencyLCD": [k["LineNumber"], k["LatencyLCD"], l]}
    ports = list(D["Target"]["Ports"])
    sums = [D["Summary"]["PortPressure"][p] for p in ports]
    if [core.parse_frac(core.frac(v)) for v in sums] != m["sums"]:
        return {"sums": [sums, [str(x) for x in m["sums"]]]}
    if not L.num_text_eq(m["cpsum"], D["Summary"]["CriticalPath"]):
        return {"CriticalPath": [D["Summary"]["CriticalPath"], m["cpsum"]]}
    if not L.num_text_eq(m["lcdsum"], D["Summary"]["LCD"]):
        return {"LCD": [D["Summary"]["LCD"], m["lcdsum"]]}
    return None


def oracle_level2(ctx, orc, c):
    """what only an end-to-end run shows: option logic of osaca.inspect"""
    spec = c.spec
    version, fname, arch, stamp = header_bits(c.text)
    want_arch = spec.get("arch") or ctx.default_archs.get(spec["isa"])
    if want_arch is None or arch != want_arch.upper():
        orc.fail("architecture-line", {"shown": arch, "expected": want_arch, "isa": spec["isa"], "arch_option": spec.get("arch")})
    if c.D["Target"]["Name"] != arch:
        orc.fail("dict-architecture", {"dict": c.D["Target"]["Name"], "text": arch})
    # the in-process dict and the --yaml-out document agree on what the property speaks about
    a, b = c.D_inproc, c.D
    if (a["Summary"] != b["Summary"] or list(a["Warnings"]) != list(b["Warnings"]) or
            [(k["LineNumber"], k["PortPressure"], k["LatencyCP"], k["LatencyLCD"], list(k["Flags"])) for k in a["Kernel"]] !=
            [(k["LineNumber"], k["PortPressure"], k["LatencyCP"], k["LatencyLCD"], list(k["Flags"])) for k in b["Kernel"]]):
        orc.fail("yaml-out-differs-from-dict", {})
    # flags handed to the front end = model of the option logic
    rep = ctx.driver.ask1("c13flags %s %s %s %s" % (esc("1" if spec.get("arch") else "0"), esc("1" if spec.get("lines") else "0"),
                                                   esc(str(c.kernel_len)), esc(str(spec["nonblank"]))))
    maw, mlw = [x == "1" for x in rep.split(" ")]
    if (maw, mlw) != (c.opts["arch_warning"], c.opts["length_warning"]):
        ctx.correspondence_break("L2-inspect-flags", {"model": [maw, mlw], "impl": [c.opts["arch_warning"], c.opts["length_warning"]],
                                                      "spec": brief(spec)})


# ------------------------------------------------------------------------------------------- level 2 inputs
def level2_specs(ctx, archs, isa_of, volume):
    rng = ctx.rng
    specs = []
    ex = sorted(glob.glob(os.path.join(core.REPO, "examples", "*", "*.s")))
    tests = {
        "x86": [os.path.join(core.REPO, "tests", "test_files", f) for f in ("kernel_x86.s", "kernel_x86_memdep.s", "triad_x86_iaca.s")],
        "aarch64": [os.path.join(core.REPO, "tests", "test_files", f) for f in ("kernel_aarch64.s", "kernel_aarch64_memdep.s", "triad_arm_iaca.s")],
    }

    def add(asm, isa, arch, fixed, ign, lines=None, marked=True, origin=""):
        nonblank = sum(1 for l in asm.split("\n") if l.strip() != "")
        specs.append({"level": 2, "asm": asm, "isa": isa, "arch": arch, "fixed": fixed, "ignore_unknown": ign,
                      "lines": lines, "marked": marked, "nonblank": nonblank, "origin": origin})

    def is_marked(asm):
        return "OSACA-BEGIN" in asm or "$111" in asm or "#111" in asm

    for arch in archs:
        isa = isa_of[arch]
        pool = [f for f in ex if (".tx2." in f) == (isa == "aarch64")]
        files = rng.sample(pool, min(volume, len(pool))) + [rng.choice(tests[isa])]
        for f in files:
            asm = open(f).read()
            if not asm.isascii():
                continue
            add(asm, isa, arch, rng.random() < 0.5, rng.random() < 0.5, marked=is_marked(asm), origin=os.path.relpath(f, core.REPO))
        # generated: unknown mnemonics, both option values
        asm = L.gen_asm(rng, isa, rng.randint(4, 12), unknown=rng.randint(1, 3))
        for ign in (False, True):
            add(asm, isa, arch, rng.random() < 0.5, ign, origin="generated+unknown")
        # generated: independent instructions, many lines -> port sums >= 10 (and >= 100 in thorough)
        n = 60 if ctx.tier == "quick" else 420
        add(L.gen_asm(rng, isa, n, unknown=0), isa, arch, True, False, origin="generated-heavy")
        for _ in range(volume):
            add(L.gen_asm(rng, isa, rng.randint(3, 25), unknown=rng.choice([0, 0, 1])), isa, arch, rng.random() < 0.5,
                rng.random() < 0.5, origin="generated")
    # option logic: default model per ISA, large unmarked file, --lines
    # no --arch on integer-only x86 code with tokens the ISA heuristic takes for AArch64 registers (hex displacements): the first
    # guess is wrong, parsing fails and `inspect` retries with the other ISA -- the warning and the default model must be as for any
    # other run without --arch
    misguess = "\n".join(["# OSACA-BEGIN", ".L1:", "    addq $1, %rax", "    movq 0x10(%rdi), %rbx", "    addq %rbx, %rcx",
                          "    movq %rcx, 0x18(%rdi)", "    cmpq %rax, %rsi", "    jne .L1", "# OSACA-END"]) + "\n"
    for fixed in (True, False):
        add(misguess, "x86", None, fixed, False, origin="no-arch-misguessed-isa")
    for isa in ("x86", "aarch64"):
        small = L.gen_asm(rng, isa, 6, marked=True)
        add(small, isa, None, True, False, origin="no-arch")
        for n in (98, 99):  # + label + jump: 100 / 101 non-blank lines
            big = L.gen_asm(rng, isa, n, marked=False, comments=False)
            add(big, isa, None if n == 99 and isa == "x86" else ctx.default_archs[isa], True, False, marked=False,
                origin="unmarked-%d" % (n + 2))
        big = L.gen_asm(rng, isa, 110, marked=False, comments=False)
        add(big, isa, ctx.default_archs[isa], True, False, lines="2-40,50", marked=False, origin="unmarked+lines")
        bigm = L.gen_asm(rng, isa, 120, marked=True, comments=False)
        add(bigm, isa, ctx.default_archs[isa], True, True, marked=True, origin="marked-large")
    return specs


# ------------------------------------------------------------------------------------------- run
def setup(ctx):
    ctx.assumptions = TRUSTED
    ctx.prove(["ReportConsts"], ["OsacaVerif.Props.C13", "OsacaVerif.Props.EndToEnd", "OsacaVerif.Props.EndToEndA64",
                                 "OsacaVerif.Props.EndToEndOpt"])
    ctx.thorough_recheck(["OsacaVerif.Props.C13", "OsacaVerif.Props.EndToEnd", "OsacaVerif.Props.EndToEndA64",
                          "OsacaVerif.Props.EndToEndOpt"])
    archs = QUICK_ARCHS if ctx.tier == "quick" else core.shipped_archs()
    # level 3 additionally reads the shipped models of the end-to-end correspondence (levels 1 and 2 keep their list)
    ctx.env = core.Env("C13", archs=archs + [a for a in E2E_SHIPPED + E2E_SHIPPED_A64 if a not in archs])
    ctx.env.activate()
    import osaca.osaca as o
    from osaca.frontend import Frontend
    from osaca.parser.instruction_form import InstructionForm
    from osaca.semantics import ArchSemantics, MachineModel
    from ruamel.yaml import YAML

    ctx.default_archs = {}
    for isa in ("x86", "aarch64"):
        r = ctx.driver.ask1("c13defarch " + esc(isa))
        ctx.default_archs[isa] = core.unesc(r) if r != "none" else None
    if dict(o.DEFAULT_ARCHS) != {k: v for k, v in ctx.default_archs.items() if v}:
        ctx.correspondence_break("DEFAULT_ARCHS", {"model": ctx.default_archs, "impl": dict(o.DEFAULT_ARCHS)})
    isa_of = {a: MachineModel.get_isa_for_arch(a) for a in archs}
    return archs, isa_of, (Frontend, InstructionForm, ArchSemantics), (o, ArchSemantics, YAML)


def run(ctx):
    archs, isa_of, mods1, mods2 = setup(ctx)
    boost = 4 if ctx.broken else 1
    # ---- level 1
    n1 = (1500 if ctx.tier == "quick" else 12000) * boost
    t = time.time()
    specs = [L.synth_case(ctx.rng) for _ in range(n1)]
    c1 = f1 = 0
    for s in range(0, n1, 250):
        cases = [level1_case(sp, mods1) for sp in specs[s:s + 250]]
        a, b = evaluate(ctx, cases, "L1")
        c1 += a
        f1 += b
    ctx.log("level 1 (Frontend on synthetic analyses): %d cases, corr disagreements %d, oracle failures %d (%.0fs)"
            % (n1, c1, f1, time.time() - t))
    # ---- level 2
    t = time.time()
    vol = (1 if ctx.tier == "quick" else 3) * (2 if ctx.broken else 1)
    specs2 = level2_specs(ctx, archs, isa_of, vol)
    cases = []
    for sp in specs2:
        cases.append(level2_case(ctx, sp, mods2))
    c2, f2 = evaluate(ctx, cases, "L2")
    errs = [c.error for c in cases if c.error]
    ctx.log("level 2 (osaca.inspect end to end): %d runs on %s, corr disagreements %d, oracle failures %d, "
            "analysis errors %d (%.0fs)" % (len(cases), ",".join(archs), c2, f2, len(errs), time.time() - t))
    for e in errs[:3]:
        ctx.log("  analysis error (not judged here): " + e)
    # ---- level 3: from file text to the report inside the model (Model/EndToEnd.lean, driver ops e2e.x86 / e2e.a64)
    t = time.time()
    boost3 = 3 if ctx.broken else 1
    vol3, svol3 = ((4, 3) if ctx.tier == "quick" else (40, 40))
    avol3, asvol3 = ((4, 3) if ctx.tier == "quick" else (35, 35))
    e2e.run_e2e_correspondence(ctx, vol3 * boost3, shipped=E2E_SHIPPED, shipped_volume=svol3 * boost3,
                               a64_volume=avol3 * boost3, a64_shipped=E2E_SHIPPED_A64, a64_shipped_volume=asvol3 * boost3)
    # the same tie on the DEFAULT (optimal) scheduling path: the command line without `--fixed`, the model's `analyseWith` on the
    # implementation's pressures after the two balancing passes (driver op e2e.opt), admissibility of the first-pass pressures
    t_opt = time.time()
    ovol3, osvol3 = ((2, 2) if ctx.tier == "quick" else (12, 12))
    e2e.run_e2e_correspondence(ctx, ovol3 * boost3, shipped=E2E_SHIPPED, shipped_volume=osvol3 * boost3,
                               a64_volume=ovol3 * boost3, a64_shipped=E2E_SHIPPED_A64, a64_shipped_volume=osvol3 * boost3, opt=True)
    ctx.log("level 3 (file text -> report, model vs command line): %.0fs, of which optimal scheduling %.0fs"
            % (time.time() - t, time.time() - t_opt))
    # ---- coverage
    ev = ctx.counts.get("L1_cases", 0) + ctx.counts.get("L2_cases", 0)
    ctx.cov["evaluations"] = ev
    ctx.cov["distinct_nontrivial"] = ctx.counts.get("reports_with_numbers_distinct", 0)
    ctx.cov["numbers_checked"] = ctx.counts.get("L1_numbers_checked", 0) + ctx.counts.get("L2_numbers_checked", 0)
    ctx.cov["traces_validated_against_impl"] = ev
    ctx.cov["rule"] = ("evaluations = reports generated by the real code and compared (text byte for byte with the model, "
                       "reading of the text with the machine-readable output); non-trivial = distinct reports showing at "
                       "least one number; numbers_checked = non-blank numbers compared with the machine-readable value at the shown precision")
    ctx.cov["distribution"].update({
        "level1": "synthetic analyses: 1-20 ports drawn from shipped and odd names, 1-30 lines, pressures incl. >=10, >=100, "
                  ">=1000, rounding ties, negatives; CP/LCD latencies int and float; 0-6 LCD entries incl. equal maxima; "
                  "all four option flags random",
        "level2": "shipped examples and test kernels of the model's ISA, generated kernels with unknown mnemonics "
                  "(with and without --ignore-unknown), %d-line kernels of independent instructions, --fixed/optimal at random; "
                  "no --arch for both ISAs, unmarked files of 100 and 101 lines, --lines, marked large file" % (60 if ctx.tier == "quick" else 420),
        "archs": archs,
    })
    return ctx.finish(trusted=TRUSTED)


def replay_e2e_opt(ctx, rep):
    """one run of the command line without `--fixed` against `analyseWith` on the pressures the balancer left (replay of kind
    `e2e-opt`: file text, model, options)"""
    ctx.lean.build_driver()
    ctx.driver = ctx.lean.start_driver()
    isa = rep.get("isa", "x86")
    arch = rep["arch"]
    ctx.env = core.Env("C13", archs=[arch] if not rep.get("synthetic") else ["spr", "tx2"])
    ctx.env.activate()
    import warnings

    warnings.filterwarnings("ignore")
    from osaca.parser import ParserAArch64, ParserX86ATT
    from osaca.semantics import MachineModel
    from harness import dgenc, pressure

    if rep.get("synthetic"):
        model = rep["model"]
        e2e.install_model(ctx, model, arch)
        small = {k: model[k] for k in e2e.MODEL_KEYS if k in model}
        stlf = core.frac(float(model.get("store_to_load_forward_latency", 0.0)))
        pidx = core.frac(float(model.get("p_index_latency", 1.0)))
    else:
        parser = ParserX86ATT() if isa == "x86" else ParserAArch64()
        mns = set()
        e2e._mnemonics(parser, rep["file"].split("\n"), mns)
        small = e2e.restrict_model(pressure.load_raw(arch), mns, isa)
        stlf, pidx = dgenc.model_params(MachineModel(arch=arch))
    st = {k: 0 for k in ["files", "runs", "compared", "disagreements", "impl_errors", "errors_agreed", "edges", "cycles", "lines",
                         "unknown_lines", "memory_lines", "reports_equal"]}
    e2e.run_cases(ctx, arch, pressure.yenc(small), stlf, pidx,
                  [("replay", rep["file"], rep.get("lines_arg"), bool(rep.get("flag_deps")), bool(rep.get("ignore_unknown")))],
                  st, "replay", isa, opt=True, replay_info={"synthetic": bool(rep.get("synthetic")), "arch": arch})
    print("optimal scheduling, %s on %s: %d run, %d analysis compared, %d disagreements; first pass inadmissible %d, raised %d; "
          "final state inadmissible %d" % (isa, arch, st["runs"], st["compared"], st["disagreements"],
                                           st.get("first_pass_inadmissible", 0), st.get("first_pass_raised", 0),
                                           st.get("final_state_inadmissible", 0)))
    for v in ctx.violations:
        print("STILL FAILING:", v["what"])
    for b in ctx.broken:
        print("MODEL AND CODE DISAGREE:", str(b)[:600])
    rc = 1 if ctx.violations else 0
    print("REPLAY: %s" % ("the input still violates the admissibility of the first balancing pass" if rc else
                          "the first-pass pressures are admissible on this input with the current tree"))
    ctx.cleanup()
    return rc


def replay(ctx, path):
    rep = json.load(open(path))["replay"]
    if rep.get("kind") == "e2e-opt":
        return replay_e2e_opt(ctx, rep)
    spec = rep.get("case")
    if not spec:
        print("replay names a broken theorem/correspondence, not an input:", json.dumps(rep)[:800])
        return 1
    ctx.lean.build_driver()
    ctx.driver = ctx.lean.start_driver()
    archs = [spec["arch"]] if spec.get("arch") else None
    ctx.env = core.Env("C13", archs=(archs or ["spr", "v2"]) if spec["level"] == 2 else [])
    ctx.env.activate()
    import osaca.osaca as o
    from osaca.frontend import Frontend
    from osaca.parser.instruction_form import InstructionForm
    from osaca.semantics import ArchSemantics
    from ruamel.yaml import YAML

    ctx.default_archs = {}
    for isa in ("x86", "aarch64"):
        r = ctx.driver.ask1("c13defarch " + esc(isa))
        ctx.default_archs[isa] = core.unesc(r) if r != "none" else None
    if spec["level"] == 1:
        c = level1_case(spec, (Frontend, InstructionForm, ArchSemantics))
    else:
        c = level2_case(ctx, spec, (o, ArchSemantics, YAML))
    if c.error:
        print("the real code raised:", c.error)
        ctx.cleanup()
        return 1
    print(c.text)
    evaluate(ctx, [c], "replay")
    for v in ctx.violations:
        print("STILL FAILING:", v["what"])
    for k, what in ctx.known_seen:
        print("KNOWN-FINDING:", what)
    rc = 1 if ctx.violations else 0
    print("REPLAY: %s" % ("the input still violates C13" if rc else "the property holds on this input with the current tree"))
    ctx.cleanup()
    return rc
