"""Operand roles and register changes inside the model (C03 / C06): proof + correspondence.

proof:   Props/C03Roles.lean about Isa.assignSrcDst / Isa.regChanges / the translated `operation` programs
         (Gen/Operations, Gen/IsaDb_x86, Gen/IsaDb_aarch64 from tools/gen/operations.py).
tie:     (1) the generated ISA databases are the same databases the Lean loader produces from the raw YAML of the
             working tree (`rolesdbcmp`), and the roles / hidden operands / idiom flags / operations the loader produces
             from the PRIVATE copy (incl. the synthetic entries appended by harness/synthisa.py) are what the
             implementation's `ISASemantics(...)._isa_model` actually holds (`rolesdbdump`);
         (2) per instruction of generated kernels (dgenc generators, roles vocabulary, synthetic ISA kernels, a set of
             targeted lines): `semantic_operands` (three lists), HAS_LD / HAS_ST and both `get_reg_changes` results of
             the implementation against Isa.assignSrcDst / Isa.regChanges of the driver.
A disagreement is a correspondence break, never a violation by itself.
"""
import os

from harness import core, dgenc
from harness.core import esc
from harness.pressure import yenc

GENS = ["MatchConsts", "RegTables", "Operations", "IsaDb_x86", "IsaDb_aarch64"]
PROPS = ["OsacaVerif.Props.C03Roles"]


# --------------------------------------------------------------------------- proof
def prove(ctx):
    """translate + build + audit of Props/C03Roles on top of what the calling check already proved"""
    ob, di = ctx.obligations, ctx.discharged
    tr = dict(ctx.lean.translate_status)
    ctx.prove(GENS, PROPS)
    ctx.obligations += ob
    ctx.discharged += di
    tr.update(ctx.lean.translate_status)
    ctx.lean.translate_status = tr
    ctx.thorough_recheck(PROPS)


# --------------------------------------------------------------------------- raw YAML
def load_raw(path):
    import ruamel.yaml

    y = ruamel.yaml.YAML(typ="safe")
    with open(path, encoding="utf-8") as f:
        return y.load(f)


def b01(x):
    return "1" if x else "0"


# --------------------------------------------------------------------------- database tie
def impl_entries(mm):
    """InstructionForm objects of a loaded ISA model in post-expansion order"""
    out, seen = [], {}
    for iform in mm["instruction_forms"]:
        name = iform["name"] if hasattr(iform, "get") and not hasattr(iform, "mnemonic") else iform.mnemonic
        j = seen.get(name, 0)
        seen[name] = j + 1
        out.append(mm["instruction_forms_dict"][name][j])
    return out


def impl_entry_dump(e, opclass):
    def role(o):
        return b01(getattr(o, "source", None)) + b01(getattr(o, "destination", None)) if not isinstance(o, dict) else "??"

    def hid(o):
        n = type(o).__name__
        if n == "FlagOperand":
            return "f:%s:%s" % (o.name, role(o))
        if n == "RegisterOperand":
            return "r:%s:%s:%s" % (o.prefix if o.prefix is not None else "~", o.name, role(o))
        if n == "MemoryOperand":
            b = o.base.name if type(o.base).__name__ == "RegisterOperand" else ("~" if o.base is None else "?")
            i = o.index
            ix = "~" if i is None else ("%s.%s" % (i.prefix if i.prefix is not None else "~", i.name) if type(i).__name__ == "RegisterOperand" else "?")
            return "m:%s:%s:%s:%s:%s" % (b, ix, o.scale, b01(o.offset is not None), role(o))
        return "o:%s" % role(o)

    op = e.operation
    return "%s/%s/%s/%s/%s" % (e.mnemonic, ",".join(role(o) for o in e.operands), ",".join(hid(o) for o in e.hidden_operands),
                               b01(e.breaks_dependency_on_equal_operands), "-" if op is None else opclass.get(op, "?"))


def operation_classes(ctx):
    """{operation text: index of the first translated program equal to its program}"""
    rep = ctx.driver.ask1("rolesops")
    opclass = {}
    for tok in rep.split(" "):
        if tok:
            t, c = tok.rsplit(":", 1)
            opclass[core.unesc(t)] = c
    return opclass


def check_generated(ctx):
    """Gen/IsaDb_<isa> against the Lean loader on the raw YAML of the working tree"""
    for isa in ("x86", "aarch64"):
        pristine = load_raw(os.path.join(core.REPO, "osaca", "data", "isa", isa + ".yml")).get("instruction_forms") or []
        r = ctx.driver.ask1("rolesdbcmp %s %s" % (esc(isa), esc(yenc(pristine))))
        ctx.count("isa_entries_generated", int(r.split()[1]) if r.startswith("same ") else 0)
        if not r.startswith("same "):
            ctx.correspondence_break("isa-db-translation", {"isa": isa, "reply": r,
                                                            "note": "Gen/IsaDb differs from the Lean loader on the raw YAML"})


def tie_database(ctx, isa, path, sem, opclass):
    """the roles / hidden operands / idiom flags / operations the Lean loader produces from the YAML file at `path`
    against what the implementation's ISA model (loaded from the same file) holds; returns the encoded raw forms"""
    forms = load_raw(path).get("instruction_forms") or []
    enc = esc(yenc(forms))
    r = ctx.driver.ask1("rolesdbdump %s %s" % (esc(isa), enc))
    model = [core.unesc(t) for t in r.split(" ")] if r not in ("load-error", "bad-request") else None
    impl = [impl_entry_dump(e, opclass) for e in impl_entries(sem._isa_model)]
    ctx.count("isa_entries_compared", len(impl))
    if model != impl:
        where = "reply " + r[:40] if model is None else next(
            ("entry %d: model %s | impl %s" % (i, a, b) for i, (a, b) in enumerate(zip(model, impl)) if a != b),
            "lengths %d / %d" % (len(model), len(impl)))
        ctx.correspondence_break("isa-db-load", {"isa": isa, "file": os.path.basename(path), "first_difference": where})
    return enc


# --------------------------------------------------------------------------- synthetic entries with operations
def zz_forms(rng, isa, optexts, n=14):
    """synthetic ISA entries that carry one of the TRANSLATED operation strings on register / immediate forms with
    arbitrary roles: exercises the operand numbering, the name map for repeated registers and `exec`"""
    import re

    forms = []
    for i in range(n):
        text = rng.choice(optexts)
        need = max(int(m) for m in re.findall(r"op(\d+)", text))
        nops = min(3, need + rng.choice([0, 0, 1]))
        ops = []
        for _ in range(max(nops, need)):
            ops.append(("register" if rng.random() < 0.7 else "immediate",) + rng.choice([(True, False), (False, True), (True, True)]))
        forms.append({"name": "zz" + "abcdefghijklmnopqrstuvwxyz"[i] + "x", "operands": ops, "operation": text})
    return forms


def zz_yaml(isa, forms):
    out = []
    for f in forms:
        out += ["    - name: %s" % f["name"], "      operands:"]
        for cls, s_, d in f["operands"]:
            if cls == "register":
                out += ['        - class: "register"', '          name: "gpr"' if isa == "x86" else '          prefix: "x"']
            else:
                out += ['        - class: "immediate"', '          imd: "int"']
            out += ["          source: %s" % str(s_).lower(), "          destination: %s" % str(d).lower()]
        out.append('      operation: "%s"' % f["operation"])
    return "\n".join(out) + "\n"


def zz_kernel(rng, isa, forms, n):
    pool = rng.sample(["rax", "rbx", "rcx", "rdx", "rsi", "eax", "ebx"] if isa == "x86" else ["x1", "x2", "x3", "x4", "x5"], rng.choice([1, 2, 3]))
    lines = []
    for _ in range(n):
        f = rng.choice(forms)
        ops = []
        for cls, _, _ in f["operands"]:
            if cls == "register":
                ops.append(("%" if isa == "x86" else "") + rng.choice(pool))
            else:
                ops.append(("$%d" if isa == "x86" else "#%d") % rng.choice([1, 8, 16, 64, 4095] + ([-8] if isa == "x86" else [])))
        lines.append("%s %s" % (f["name"], ", ".join(ops)))
    return lines


# --------------------------------------------------------------------------- encoding of instructions
class Keys:
    """short ids for `__eq__` classes of operands"""

    def __init__(self):
        self.ids, self.n = {}, 0

    def of(self, o, pos):
        n = type(o).__name__
        if n in ("RegisterOperand", "ImmediateOperand", "MemoryOperand"):
            k = dgenc.eqkey(o)
        else:
            self.n += 1
            return "u%d" % self.n            # classes without __eq__: identity
        if k not in self.ids:
            self.ids[k] = "k%d" % len(self.ids)
        return self.ids[k]


def _is_int(v):
    return isinstance(v, int) and not isinstance(v, bool)


def val_y(v):
    if v is None:
        return None
    return v if _is_int(v) else "?"


def operand_y(o, key):
    from harness.c07synth import canon_operand

    n = type(o).__name__
    val, off, post = None, None, None
    if n == "ImmediateOperand":
        val = val_y(o.value)
    if n == "MemoryOperand":
        f = o.offset
        if f is None:
            off = None
        elif type(f).__name__ == "ImmediateOperand":
            off = f.value if _is_int(f.value) else ("n" if f.value is None else "?")
        elif type(f).__name__ == "IdentifierOperand":
            off = ["s", dgenc.symkey(f)]      # a symbolic displacement: Isa.Opnd.offSym
        else:
            off = "x"
        p = o.post_indexed
        if isinstance(p, dict):
            if "value" not in p:
                post = "a"       # post-indexed by a register (`[x0], x1`) or a symbol: the parser's dict has no "value"
            else:
                post = p["value"] if _is_int(p["value"]) else "?"
    return [canon_operand(o), key, val, off, post]


def unsupported(opy):
    """values outside the model (floats, strings): the register-change comparison is skipped
    (a post-index by a register or a symbol is INSIDE the model: "a", `Isa.Val.absent`)"""
    return any(y[2] == "?" or y[3] == "?" or y[4] == "?" for y in opy)


# --------------------------------------------------------------------------- rendering of the implementation's results
def sub_reg(r):
    if r is None:
        return "~"
    if type(r).__name__ != "RegisterOperand":
        return "?"
    return "%s.%s" % (r.prefix or "", r.name or "")


def semop_s(o, explicit):
    n = type(o).__name__
    if n == "RegisterOperand":
        post = o.post_indexed
        return "r,%s,%s,%s,%s" % (o.prefix or "", o.name or "", b01(o.pre_indexed), b01(bool(post) or isinstance(post, dict)))
    if n == "FlagOperand":
        return "f,%s" % o.name
    if n == "MemoryOperand":
        y = dgenc.op_y(o)
        offv = "~" if y[4] is None else ("id" if isinstance(y[4], list) else str(y[4]))
        return "m,%s,%s,%d,%s,%s,%s,%s" % (sub_reg(o.base), sub_reg(o.index), y[3], offv, b01(y[5]), b01(y[6]), explicit.get(id(o), "H"))
    return "o"


def changes_s(fn):
    try:
        d = fn()
    except Exception as e:  # noqa
        return "raise:" + type(e).__name__
    out = []
    for reg, ch in d.items():
        if ch is None:
            out.append("%s=~" % reg)
        elif not isinstance(ch, dict):
            out.append("%s=?" % reg)
        else:
            nm, v = ch.get("name"), ch.get("value")
            out.append("%s=%s:%s" % (reg, "~" if nm is None else nm, "~" if v is None else (str(v) if _is_int(v) else "?")))
    return "|".join(out)


# --------------------------------------------------------------------------- targeted lines
def extra_lines(rng, isa):
    """lines that exercise the suffix fall-backs, the register-wildcard lookup, hidden operands, the zero idioms
    (equal and unequal operands), write-back addressing and every translated operation"""
    if isa == "x86":
        g = ["rax", "rbx", "rcx", "rdx", "rsi", "rdi", "r8", "r9", "r10", "rbp"]
        g32 = ["eax", "ebx", "ecx", "edx", "esi", "edi", "r8d", "r9d", "r10d", "ebp"]
        a, b, c = ("%" + x for x in rng.sample(g, 3))
        i, j = rng.sample(range(len(g)), 2)
        x, y_, z = ("%%xmm%d" % k for k in rng.sample(range(16), 3))
        k = rng.choice([1, 8, 16, -8, 64, 0x40, 4096])
        sfx = rng.choice(["", "q"])
        mem = rng.choice(["(%s)" % a, "%d(%s)" % (k, a), "(%s,%s,8)" % (a, c), "%d(%s,%s,4)" % (k, a, c)])
        pool = [
            "add%s $%d, %s" % (sfx, k, b), "sub%s $%d, %s" % (sfx, k, b), "inc%s %s" % (sfx, b), "dec%s %s" % (sfx, b),
            "mov%s %s, %s" % (sfx, a, b), "mov%s %s, %s" % (sfx, b, b), "sbb%s %s, %s" % (sfx, a, b), "add%s %s, %s" % (sfx, a, b),
            "addl $%d, %%%s" % (k, g32[i]), "movl %%%s, %%%s" % (g32[i], g32[j]), "incl %%%s" % g32[i],
            "sub%s %s, %s" % (sfx, a, a), "sub%s %s, %s" % (sfx, a, b), "xor%s %s, %s" % (sfx, a, a), "xorl %%%s, %%%s" % (g32[i], g32[i]),
            "xorl %%%s, %%%s" % (g32[i], g32[j]), "pxor %s, %s" % (x, x), "pxor %s, %s" % (x, y_), "xorps %s, %s" % (x, x),
            "vxorpd %s, %s, %s" % (x, x, x), "vxorps %s, %s, %s" % (x, y_, x), "vxorpd %s, %s, %s" % (x, y_, z), "vzeroall",
            "push %s" % a, "pop %s" % a, "pushq %s" % a, "cltq", "cqto", "cltd", "cmpxchg %s, %s" % (a, b), "blendvpd %s, %s" % (x, y_),
            "add%s %s, %s" % (sfx, mem, b), "add%s %s, %s" % (sfx, b, mem), "add%s $%d, %s" % (sfx, k, mem), "inc%s %s" % (sfx or "q", mem),
            "mov%s %s, %s" % (sfx or "q", mem, b), "mov%s %s, %s" % (sfx or "q", b, mem), "lea%s %s, %s" % (sfx or "q", mem, b),
            "vmovapd %s, %s" % (mem, x), "vmovapd %s, %s" % (x, mem), "vaddpd %s, %s, %s" % (mem, y_, z),
            "vfmadd231pd %s, %s, %s" % (x, y_, z), "vfmadd231pd %s, %s, %s" % (mem, y_, z), "cmp%s %s, %s" % (sfx, a, b),
            "test%s %s, %s" % (sfx, a, a), "imul%s %s, %s" % (sfx, a, b), "shl%s $3, %s" % (sfx, b), "neg%s %s" % (sfx, b),
            "jne .L1", "ja .L2", "add%s $foo, %s" % (sfx, b), "nop", "vmulsd %s, %s, %s" % (x, y_, z), "movsd %s, %s" % (mem, x),
            "unknownop %s" % a, "unknownop %s, %s" % (a, b), "unknownop %s, %s, %s" % (mem, a, b), "unknownop", "# comment", ".L1:",
        ]
    else:
        r = rng.sample(range(1, 15), 4)
        xa, xb, xc, xd = ("x%d" % v for v in r)
        wa, wb_, wc = ("w%d" % v for v in r[:3])
        d = ["d%d" % v for v in rng.sample(range(16), 3)]
        q = ["q%d" % v for v in rng.sample(range(16), 2)]
        v = ["v%d.2d" % k for k in rng.sample(range(16), 3)]
        k = rng.choice([8, 16, 32, -16, 64, 1, 4095])
        mem = rng.choice(["[%s]" % xa, "[%s, #%d]" % (xa, k), "[%s, %s]" % (xa, xc), "[%s, %s, lsl #3]" % (xa, xc),
                          "[%s, #%d]!" % (xa, k), "[%s], #%d" % (xa, k)])
        pool = [
            "add %s, %s, #%d" % (xa, xa, abs(k)), "add %s, %s, #%d" % (xa, xb, abs(k)), "sub %s, %s, #%d" % (xa, xa, abs(k)),
            "sub %s, %s, #%d" % (xb, xa, abs(k)), "adds %s, %s, %s" % (xa, xb, xc), "adds %s, %s, #%d" % (wa, wb_, abs(k)),
            "subs %s, %s, %s" % (wa, wb_, wc), "subs %s, %s, #%d" % (xa, xa, abs(k)), "mov %s, %s" % (xa, xb), "mov %s, %s" % (xa, xa),
            "mov %s, #%d" % (xa, abs(k)), "mov %s, %s" % (wa, wb_), "add %s, %s, %s" % (xa, xb, xc), "add %s, %s, %s" % (wa, wb_, wc),
            "add %s, %s, %s, lsl #2" % (xa, xb, xc), "mul %s, %s, %s" % (xa, xb, xc), "cmp %s, %s" % (xa, xb), "cmp %s, #%d" % (wa, abs(k)),
            "ldr %s, %s" % (xb, mem), "ldr %s, %s" % (d[0], mem), "str %s, %s" % (xb, mem), "str %s, %s" % (q[0], mem),
            "ldp %s, %s, %s" % (d[0], d[1], mem), "stp %s, %s, %s" % (q[0], q[1], mem), "ldp %s, %s, %s" % (xb, xd, mem),
            "ldr %s, [%s, #%d]!" % (xb, xa, k), "str %s, [%s], #%d" % (xb, xa, k), "ldr %s, [%s], #%d" % (xa, xa, k),
            "add %s, %s, #%d" % (xa, xa, abs(k)),
            "fadd %s, %s, %s" % (d[0], d[1], d[2]), "fmla %s, %s, %s" % (v[0], v[1], v[2]), "fadd %s, %s, %s" % (v[0], v[1], v[2]),
            "fmadd %s, %s, %s, %s" % (d[0], d[1], d[2], d[0]), "fmov %s, #1.5" % d[0], "b.ne .L1", "bne .L2", "b .L3", "cbz %s, .L1" % xa,
            "ld1 {%s, %s}, [%s], #32" % (v[0], v[1], xa),
            # post-indexed by a register: the SIMD structure loads/stores, and (accepted by the parser) the plain ones
            "ld1 {%s}, [%s], %s" % (v[0], xa, xc), "st1 {%s}, [%s], %s" % (v[1], xb, xc), "ld1r {%s}, [%s], %s" % (v[2], xa, xd),
            "ld1 {%s, %s}, [%s], %s" % (v[0], v[1], xa, xa), "ld2 {%s, %s}, [%s], %s" % (v[0], v[1], xd, xc),
            "st1 {%s}, [%s], %s" % (v[0], xa, xc), "ldr %s, [%s], %s" % (d[0], xa, xc), "str %s, [%s], %s" % (q[0], xb, xc),
            "stp %s, %s, [%s], %s" % (d[0], d[1], xa, xd), "ldr %s, [%s], sym" % (xb, xa), "prfm pldl1keep, [%s, #%d]" % (xa, abs(k)), "csel %s, %s, %s, eq" % (xa, xb, xc),
            "ldr %s, [%s, :lo12:sym]" % (xb, xa), "unknownop %s" % xa, "unknownop %s, %s" % (xa, xb), "unknownop %s, %s, %s" % (xa, xb, mem),
            "fadd.x %s, %s, %s" % (d[0], d[1], d[2]), "// comment", ".L1:", "nop",
        ]
    return rng.sample(pool, rng.randint(3, 9))


# --------------------------------------------------------------------------- the correspondence
class Tally:
    def __init__(self):
        self.breaks = 0


def compare(ctx, isa, sem, parser, forms_enc, kernels, tally):
    """implementation vs model, instruction by instruction, for the kernels [(lines, source)] of one ISA on one database"""
    from osaca.semantics import INSTR_FLAGS

    recs, ky, keys = [], [], Keys()
    for lines, source in kernels:
        try:
            kernel = parser.parse_file("\n".join(lines))
        except Exception:  # noqa  (a line the parser rejects: not this check's subject)
            ctx.count("roles_unparsable_kernels")
            continue
        for ins in kernel:
            ops = list(ins.operands or [])
            opy = [operand_y(o, keys.of(o, p)) for p, o in enumerate(ops)]
            explicit = {id(o): y[1] for o, y in zip(ops, opy)}
            nflags = len(ins.flags)
            try:
                sem.assign_src_dst(ins)
                so = ins.semantic_operands
                impl = [";".join("|".join(semop_s(o, explicit) for o in so[k]) for k in ("source", "destination", "src_dst")),
                        b01(INSTR_FLAGS.HAS_LD in ins.flags[nflags:]), b01(INSTR_FLAGS.HAS_ST in ins.flags[nflags:])]
                ch = changes_s(lambda: sem.get_reg_changes(ins))
                chp = changes_s(lambda: sem.get_reg_changes(ins, True))
            except Exception as e:  # noqa
                impl, ch, chp = ["raise:" + type(e).__name__, "", ""], "", ""
            recs.append({"isa": isa, "line": ins.line, "kernel": lines, "source": source, "impl": impl, "ch": ch, "chp": chp,
                         "unsupported": unsupported(opy), "mnemonic": ins.mnemonic})
            ky.append([ins.mnemonic, opy])
    if not recs:
        return
    rep = ctx.driver.ask1("roles %s %s %s" % (esc(isa), forms_enc, esc(yenc(ky))))
    toks = rep.split(" ")
    if len(toks) != len(recs):
        ctx.correspondence_break("roles-driver", {"isa": isa, "reply": rep[:200], "instructions": len(recs)})
        return

    def norm(x):
        return "raise" if x.startswith("raise:") else x

    for rec, tok in zip(recs, toks):
        ctx.count("roles_instructions")
        if rec["mnemonic"] is None:
            ctx.count("roles_non_instructions")
        f = tok.split(";")
        if len(f) != 7:
            ctx.correspondence_break("roles-driver", {"isa": isa, "line": rec["line"], "reply": tok[:200]})
            tally.breaks += 1
            continue
        m_sem, m_ld, m_st, m_ch, m_chp = ";".join(f[0:3]), f[3], f[4], f[5], f[6]
        info = {"isa": isa, "line": rec["line"], "kernel": rec["kernel"], "generator": rec["source"]}
        if f[2]:
            ctx.count("roles_with_src_dst")
        if ",H" in tok or "f," in tok:
            ctx.count("roles_with_hidden")
        if m_sem != rec["impl"][0]:
            if tally.breaks < 6:
                ctx.correspondence_break("assign_src_dst", dict(info, model=m_sem, impl=rec["impl"][0]))
            tally.breaks += 1
        elif (m_ld, m_st) != (rec["impl"][1], rec["impl"][2]):
            if tally.breaks < 6:
                ctx.correspondence_break("has_load/has_store", dict(info, model=[m_ld, m_st], impl=rec["impl"][1:]))
            tally.breaks += 1
        if rec["unsupported"] or m_ch == "unsupported" or m_chp == "unsupported":
            ctx.count("roles_values_outside_model")
            if not rec["unsupported"]:
                if tally.breaks < 6:
                    ctx.correspondence_break("get_reg_changes", dict(info, model=[m_ch, m_chp], note="model reports an unsupported value"))
                tally.breaks += 1
            continue
        if m_ch.startswith("raise"):
            ctx.count("reg_changes_raise")
        elif any(not t.endswith("=~") for t in m_ch.split("|") if t):
            ctx.count("reg_changes_known")
        if m_chp:
            ctx.count("reg_changes_postindexed")
            if m_chp.endswith("=~"):
                ctx.count("reg_changes_postindexed_by_register")      # `{base: None}`: the amount is a register / a symbol
        if norm(m_ch) != norm(rec["ch"]):
            if tally.breaks < 6:
                ctx.correspondence_break("get_reg_changes", dict(info, model=m_ch, impl=rec["ch"]))
            tally.breaks += 1
        if norm(m_chp) != norm(rec["chp"]):
            if tally.breaks < 6:
                ctx.correspondence_break("get_reg_changes(only_postindexed)", dict(info, model=m_chp, impl=rec["chp"]))
            tally.breaks += 1


def compare_graph(ctx, isa, forms_enc, kernels, tally):
    """the composed path: the dependency graph the model builds from the PARSED operands (roles and register changes by
    Isa.assignSrcDst / Isa.regChanges, graph by DG.create) against the implementation's KernelDG, edge by edge"""
    from fractions import Fraction

    from harness import corpus, dgcheck
    from osaca.semantics import INSTR_FLAGS, MachineModel

    archs = corpus.archs_of(isa, ctx.tier == "quick")
    mms, ims, reqs = {}, [], []

    def num(x):
        return Fraction(*float(x).as_integer_ratio()) if x is not None else None

    for lines, source in kernels:
        arch = ctx.rng.choice(archs)
        fd = ctx.rng.random() < 0.4
        if arch not in mms:
            mms[arch] = MachineModel(arch=arch)
        try:
            im = dgcheck.Impl(isa, arch, lines, fd, mms[arch])
        except Exception:  # noqa  (reported by the calling check's own kernel loops)
            ctx.count("graph_impl_exceptions")
            continue
        keys, ky = Keys(), []
        for ins in im.kernel:
            ops = list(ins.operands or [])
            ky.append([ins.line_number, num(ins.latency if ins.latency is not None else 0.0), num(ins.latency_wo_load),
                       INSTR_FLAGS.LD in ins.flags, ins.mnemonic, [operand_y(o, keys.of(o, p)) for p, o in enumerate(ops)]])
        ims.append(im)
        reqs.append("dgfull %s %s %s %s %s %s" % (esc(isa), esc("1" if fd else "0"), esc(im.stlf), esc(im.pidx), forms_enc,
                                                 esc(dgenc.yenc2(ky))))
    for im, rep in zip(ims, ctx.driver.ask(reqs)):
        ctx.count("graph_kernels")
        if rep in ("raise", "unsupported", "hidden-mem"):
            ctx.count("graph_" + rep.replace("-", "_"))
            if rep == "raise" and not im.raised:
                if tally.breaks < 6:
                    ctx.correspondence_break("graph-from-operands", dict(im.info(), model="a register-change query raises"))
                tally.breaks += 1
            continue
        try:
            d = dgenc.diff_edges(dgenc.parse_edges(rep), im.edges())
        except Exception:  # noqa
            d = "reply " + rep[:80]
        if d and not im.raised:
            if tally.breaks < 6:
                ctx.correspondence_break("graph-from-operands", dict(im.info(), diff=d))
            tally.breaks += 1
        elif not d and im.edges():
            ctx.count("graph_kernels_with_edges")


def run(ctx, syn_forms=None, volume=1.0):
    """One call from harness/props/c03.py (and c06.py).  `syn_forms`: the synthetic ISA entries of this run."""
    prove(ctx)
    from osaca.parser import ParserAArch64, ParserX86ATT
    from osaca.semantics import ISASemantics
    from harness import roles, synthisa

    rng = ctx.rng
    parsers = {"x86": ParserX86ATT(), "aarch64": ParserAArch64()}
    opclass = operation_classes(ctx)
    check_generated(ctx)
    weak = any(k in ("proof", "translator") for k, _, _ in ctx.broken)
    n = int((400 if ctx.tier == "quick" else 2500) * volume * (3 if weak else 1))
    tally = Tally()
    for isa in ("x86", "aarch64"):
        # ---- the database the implementation loads (private copy; on x86 with the synthetic entries of synthisa)
        sem = ISASemantics(isa)
        enc = tie_database(ctx, isa, os.path.join(ctx.env.data, "isa", isa + ".yml"), sem, opclass)
        kernels = []
        for t in range(n // 2):
            kind = t % 11
            if kind < 4:
                gen = dgenc.gen_x86_kernel if isa == "x86" else dgenc.gen_a64_kernel
                kernels.append((gen(rng, rng.randint(2, 10), mem=True, npool=rng.choice([2, 3, 4])), "dgenc"))
            elif kind < 5:
                kernels.append(((dgenc.gen_memdep_x86 if isa == "x86" else dgenc.gen_memdep_a64)(rng)[0], "memdep"))
            elif kind < 7:
                kernels.append((roles.gen(rng, isa, rng.randint(2, 8), npool=rng.choice([2, 3, 4]))[0], "vocabulary"))
            elif kind < 9 and syn_forms and isa == "x86":
                kernels.append((synthisa.gen_kernel(rng, syn_forms, rng.randint(2, 8), npool=rng.choice([2, 3]))[0], "synthetic-isa"))
            else:
                kernels.append((extra_lines(rng, isa), "targeted"))
        compare(ctx, isa, sem, parsers[isa], enc, kernels, tally)
        compare_graph(ctx, isa, enc, [k for k in kernels if k[1] != "synthetic-isa"][: max(10, n // 10)], tally)
        # ---- the same database plus synthetic entries that carry the translated operations on arbitrary forms
        zz = zz_forms(rng, isa, sorted(opclass))
        path = os.path.join(ctx.env.work, "zzisa_%s.yml" % isa)
        with open(os.path.join(ctx.env.data, "isa", isa + ".yml"), encoding="utf-8") as f:
            text = f.read()
        with open(path, "w", encoding="utf-8") as f:
            f.write(text.rstrip("\n") + "\n" + zz_yaml(isa, zz))
        semz = ISASemantics(isa, path_to_yaml=path)
        encz = tie_database(ctx, isa, path, semz, opclass)
        compare(ctx, isa, semz, parsers[isa], encz,
                [(zz_kernel(rng, isa, zz, rng.randint(2, 6)), "synthetic-operations") for _ in range(max(20, n // 6))], tally)
    ctx.cov["roles_correspondence"] = {k: v for k, v in ctx.counts.items() if k.startswith(("roles_", "reg_changes_", "isa_entries", "graph_"))}
    ctx.log("roles: %d instructions compared (%d with src_dst, %d with hidden operands; register changes: %d known, %d raise, "
            "%d post-indexed, %d of them by a register); %d ISA entries tied; %d graphs rebuilt from the parsed operands (%d with edges); %d disagreements"
            % (ctx.counts.get("roles_instructions", 0), ctx.counts.get("roles_with_src_dst", 0), ctx.counts.get("roles_with_hidden", 0),
               ctx.counts.get("reg_changes_known", 0), ctx.counts.get("reg_changes_raise", 0),
               ctx.counts.get("reg_changes_postindexed", 0), ctx.counts.get("reg_changes_postindexed_by_register", 0),
               ctx.counts.get("isa_entries_compared", 0),
               ctx.counts.get("graph_kernels", 0), ctx.counts.get("graph_kernels_with_edges", 0), tally.breaks))
