"""Canonical token form of `ParserAArch64().parse_line` results (C10).

The same token list is produced by the Lean driver op `a64parse` (lean/OsacaVerif/Driver/C10.lean)
and by `ast_tokens` of harness/a64gen.py (the oracle's expectation).  A token is either a bare tag,
`~` (None) or `=`+percent-escaped text.
"""
from harness.core import esc

NONE = "~"


def t(x):
    return NONE if x is None else esc(str(x))


def _reg(r):
    return ["R", t(r.prefix), t(r.name), t(r.shape), t(r.lanes), t(r.index), t(r.predication)]


def _ident(o):
    off = o.offset
    if off is not None and not isinstance(off, (str, int)):
        off = "?"
    return [t(o.name), t(o.relocation), t(off)]


def _shiftval(s):
    """index register `shift` attribute: list of immediate dicts as left by the grammar."""
    if s is None or s is False:
        return NONE
    try:
        if isinstance(s, list) and len(s) == 1 and isinstance(s[0], dict) and set(s[0]) == {"value"}:
            return esc(str(s[0]["value"]))
    except Exception:
        pass
    return esc("?")


def operand(o):
    from osaca.parser.condition import ConditionOperand
    from osaca.parser.identifier import IdentifierOperand
    from osaca.parser.immediate import ImmediateOperand
    from osaca.parser.memory import MemoryOperand
    from osaca.parser.prefetch import PrefetchOperand
    from osaca.parser.register import RegisterOperand

    if isinstance(o, RegisterOperand):
        return _reg(o)
    if isinstance(o, ImmediateOperand):
        v = o.value
        if o.imd_type == "int" and isinstance(v, int) and not isinstance(v, bool):
            return ["Ii", esc(str(v))]
        if o.imd_type in ("float", "double"):
            if isinstance(v, str):
                return ["If", esc(o.imd_type), esc(v), NONE, NONE]
            if isinstance(v, dict) and set(v) == {"mantissa", "e_sign", "exponent"}:
                return ["If", esc(o.imd_type), esc(v["mantissa"]), esc(v["e_sign"]), esc(v["exponent"])]
        return ["O", esc("imm")]
    if isinstance(o, IdentifierOperand):
        return ["Id"] + _ident(o)
    if isinstance(o, ConditionOperand):
        return ["Cc", t(o.ccode)]
    if isinstance(o, PrefetchOperand):
        def one(x):
            if isinstance(x, list) and len(x) == 1:
                return esc(str(x[0]))
            return t(x)
        return ["P", one(o.type_id), one(o.target), one(o.policy)]
    if isinstance(o, MemoryOperand):
        out = ["M"]
        off = o.offset
        if off is None:
            out += [NONE]
        elif isinstance(off, ImmediateOperand) and isinstance(off.value, int):
            out += ["i", esc(str(off.value))]
        elif isinstance(off, IdentifierOperand):
            out += ["d"] + _ident(off)
        else:
            out += ["o"]
        b = o.base
        out += [t(b.prefix), t(b.name)] if b is not None else [NONE, NONE]
        ix = o.index
        if ix is None:
            out += [NONE]
        else:
            out += ["x", t(ix.prefix), t(ix.name), t(ix.shift_op if ix.shift_op else None), _shiftval(ix.shift)]
        if not isinstance(o.scale, int):
            raise ValueError("non-integer scale")     # negative shift amount: outside the model
        out += [esc(str(o.scale))]
        out += ["1" if o.pre_indexed else "0"]
        po = o.post_indexed
        if po is False or po is None:
            out += [NONE]
        elif isinstance(po, dict) and set(po) == {"value"} and isinstance(po["value"], int):
            out += ["i", esc(str(po["value"]))]
        else:
            out += ["o"]
        return out
    return ["O", esc(type(o).__name__)]


def form(f):
    """InstructionForm -> token list.  Class precedence as the consumers of the parser use it:
    mnemonic, directive, label, else comment."""
    n = sum(1 for x in (f.mnemonic, f.directive, f.label) if x is not None)
    if n > 1:
        return ["X", esc("multi-class")]
    if f.mnemonic is not None:
        out = ["I", t(f.mnemonic), t(f.comment), str(len(f.operands))]
        for o in f.operands:
            out += operand(o)
        return out
    if f.directive is not None:
        ps = f.directive.parameters
        return ["D", t(f.directive.name), str(len(ps))] + [t(x) if isinstance(x, str) else esc("?") for x in ps] + [t(f.comment)]
    if f.label is not None:
        return ["L", t(f.label), t(f.comment)]
    if f.comment is not None:
        return ["C", t(f.comment)]
    return ["X", esc("no-class")]


def parse(parser, line, no=None):
    """Real parser -> canonical string; exceptions mapped to a small enum."""
    try:
        f = parser.parse_line(line, no)
    except ValueError:
        return "ERR"
    except Exception:  # noqa  (any other exception type escaping parse_line)
        return "EXC"
    try:
        return " ".join(form(f))
    except Exception:  # noqa
        return "EXC"
