"""Synthetic machine models for C07 / C08 (both ISAs): instruction forms with every operand kind,
wildcards, duplicate and shadowing entries, alias name lists, mixed-case names, names with and
without mnemonic suffixes; load/store throughput tables per addressing shape and register type,
defaults, multipliers, load latencies.  Also near-miss instruction texts.

A model is the plain Python structure that is dumped to YAML (and, independently, encoded for the
Lean driver with `pressure.yenc`).
"""
import os

from harness import c07synth as S

X86_REG_CLASSES = ["gpr", "gpr", "xmm", "xmm", "ymm", "zmm", "mm", "k", "*"]
A64_SCALAR = ["x", "x", "w", "d", "s", "q", "h", "b"]
A64_SHAPES = [None, "*", "b", "h", "s", "d"]
A64_CONDS = ["EQ", "ne", "Ge", "lt", "*", "al", "HI"]
PORT_POOLS = [["0", "1", "2", "3", "4", "5"], ["0", "0DV", "1", "2", "2D", "3", "3D", "4"], ["0", "1", "10", "11", "2D", "ST"]]
CYCLES = [0.25, 0.5, 1, 1, 1, 1.5, 2, 3]

# varied first letters: a special case keyed on how a mnemonic *starts* (e.g. VEX `v...`) must not go unnoticed
BASES_X86 = ["zzadd", "zzmul", "zzmov", "zzfma", "zzcmp", "zzld", "zzshuf", "zzcvt", "vzzadd", "vzzcvtsi", "pzzshuf",
             "kzzmov", "czzmov",
             "zo", "zt", "zzn", "z"]       # short stems (like or, bt, in, shl): the size-suffix fall-back is about the last letter only
BASES_A64 = ["qqadd", "qqmul", "qqmov", "qqfmla", "qqcmp", "qqldr", "qqstr", "qqdup", "fqqadd", "sqqmul", "bqq", "qb", "q"]


def rand_case(rng, s):
    r = rng.random()
    if r < 0.5:
        return s
    if r < 0.75:
        return s.upper()
    return "".join(c.upper() if rng.random() < 0.5 else c for c in s)


# --------------------------------------------------------------------------- entry operands
def x86_entry_operand(rng, role=None):
    r = rng.random()
    if r < 0.5:
        o = {"class": "register", "name": rng.choice(X86_REG_CLASSES)}
        if rng.random() < 0.1:
            o["mask"] = True
    elif r < 0.75:
        o = {"class": "memory", "base": rng.choice(["*", "*", "gpr", None]), "offset": rng.choice(["*", "*", "imd", None, "id"]),
             "index": rng.choice(["*", "*", "gpr", None]), "scale": rng.choice(["*", "*", 1, 1, 2, 4, 8, None])}
    elif r < 0.9:
        o = {"class": "immediate", "imd": "int"}
    else:
        o = {"class": "identifier"}
    return o


def a64_entry_operand(rng):
    r = rng.random()
    if r < 0.3:
        o = {"class": "register", "prefix": rng.choice(A64_SCALAR + ["*"])}
    elif r < 0.5:
        o = {"class": "register", "prefix": rng.choice(["v", "v", "z", "*"]), "shape": rng.choice(A64_SHAPES)}
        if o["shape"] is None:
            del o["shape"]
        if rng.random() < 0.2:
            o["width"] = "*"
    elif r < 0.55:
        o = {"class": "register", "prefix": "p"}
        if rng.random() < 0.5:
            o["predication"] = rng.choice(["*", "m", "z"])
    elif r < 0.78:
        pre, post = rng.choice([(False, False), (False, False), (True, False), (False, True), ("*", "*"), ("*", False)])
        o = {"class": "memory", "base": rng.choice(["x", "x", "*"]), "offset": rng.choice(["*", "*", "imd", None]),
             "index": rng.choice(["*", "*", None, None, "x", "z"]), "scale": rng.choice(["*", "*", 1, 1, 2, 8, None]),
             "pre_indexed": pre, "post_indexed": post}
    elif r < 0.9:
        o = {"class": "immediate", "imd": rng.choice(["int", "int", "float", "double", "*"])}
    elif r < 0.94:
        o = {"class": "identifier"}
    elif r < 0.98:
        o = {"class": "condition", "ccode": rng.choice(A64_CONDS)}
    else:
        o = {"class": "prfop", "type": "*", "target": "*", "policy": "*"}
    return o


def with_roles(rng, isa, ops, prob=0.5):
    """source/destination markers as the models carry them (irrelevant for matching)"""
    out = []
    for i, o in enumerate(ops):
        o = dict(o)
        if rng.random() < prob:
            dst = (i == len(ops) - 1) if isa == "x86" else (i == 0)
            o["source"], o["destination"] = (not dst) or rng.random() < 0.2, dst
        out.append(o)
    return out


def random_uops(rng, ports, maxn=3):
    out = []
    for _ in range(rng.randint(0 if rng.random() < 0.1 else 1, maxn)):
        k = rng.choice([1, 1, 2, 3])
        ps = rng.sample(ports, min(k, len(ports)))
        c = rng.choice(CYCLES)
        if all(len(p) == 1 for p in ps) and rng.random() < 0.5:
            out.append([c, "".join(ps)])
        else:
            out.append([c, ps])
    return out


def payload(rng, ports, missing=True):
    pp = random_uops(rng, ports)
    total = sum(u[0] for u in pp)
    tp = rng.choice([total, max(0.25, total / 2), 1.0, 0.5]) if total > 0 else rng.choice([0.0, 1.0])
    lat = rng.choice([0, 1, 3, 4.0, 6])
    if missing and rng.random() < 0.06:
        tp = None
    if missing and rng.random() < 0.06:
        lat = None
    return tp, lat, pp


# --------------------------------------------------------------------------- models
def random_model(rng, isa, n_forms=24, tables=True, missing=True, role_prob=0.5):
    isa = isa.lower()
    x86 = isa == "x86"
    ports = list(rng.choice(PORT_POOLS))[: rng.randint(3, 8)]
    bases = list(BASES_X86 if x86 else BASES_A64)
    suffix = (lambda: rng.choice("bswlqt")) if x86 else (lambda: "." + rng.choice(["s", "d", "eq", "4s", "b.ne"]))
    names = []
    for b in rng.sample(bases, rng.randint(3, len(bases))):
        names.append(b)
        if rng.random() < 0.35:
            names.append(b + suffix())          # an entry of its own for the suffixed mnemonic
    forms = []
    while len(forms) < n_forms:
        name = rng.choice(names)
        nops = rng.choice([0, 1, 2, 2, 2, 3, 3, 4] + ([] if x86 else [5]))
        ops = [x86_entry_operand(rng) if x86 else a64_entry_operand(rng) for _ in range(nops)]
        tp, lat, pp = payload(rng, ports, missing)
        written = rand_case(rng, name)
        if rng.random() < 0.15:
            others = rng.sample(names, min(len(names), rng.randint(1, 2)))
            written = [rand_case(rng, n) for n in [name] + others]      # alias list (expanded at the END)
        form = {"name": written, "operands": with_roles(rng, isa, ops, role_prob), "throughput": tp, "latency": lat, "port_pressure": pp}
        forms.append(form)
        r = rng.random()
        if r < 0.12 and forms:
            # exact duplicate with another payload (the first one in file order must win)
            tp2, lat2, pp2 = payload(rng, ports, missing)
            forms.append({"name": rand_case(rng, name), "operands": with_roles(rng, isa, ops, role_prob), "throughput": tp2, "latency": lat2,
                          "port_pressure": pp2})
        elif r < 0.3 and ops:
            # a shadowing / shadowed variant: one operand generalised or specialised
            ops2 = [dict(o) for o in ops]
            j = rng.randrange(len(ops2))
            o = ops2[j]
            if o["class"] == "register":
                if x86:
                    o["name"] = rng.choice(["*", "gpr", "xmm", "ymm"])
                else:
                    o["prefix"] = rng.choice(["*", "x", "v", "d"])
                    if o["prefix"] in ("*", "v") and rng.random() < 0.5:
                        o["shape"] = rng.choice(["*", "s", "d"])
            elif o["class"] == "memory":
                k = rng.choice(["base", "offset", "index", "scale"])
                o[k] = "*" if o[k] != "*" else rng.choice([None, 1] if k == "scale" else [None, "imd"] if k == "offset"
                                                         else [None, "gpr" if x86 else "x"])
            elif o["class"] == "immediate" and not x86:
                o["imd"] = rng.choice(["*", "int", "double"])
            tp2, lat2, pp2 = payload(rng, ports, missing)
            f2 = {"name": rand_case(rng, name), "operands": ops2, "throughput": tp2, "latency": lat2, "port_pressure": pp2}
            if rng.random() < 0.5:
                forms.append(f2)
            else:
                forms.insert(len(forms) - 1, f2)
    model = {
        "osaca_version": "0.5.0", "micro_architecture": "synthetic", "arch_code": "SYN", "isa": "x86" if x86 else rng.choice(["AArch64", "aarch64"]),
        "hidden_loads": False, "ports": ports, "port_model_scheme": None,
        "load_latency": {}, "load_throughput": [], "load_throughput_default": random_uops(rng, ports, 2),
        "store_throughput": [], "store_throughput_default": random_uops(rng, ports, 2),
        "instruction_forms": forms,
    }
    regtypes = ["gpr", "mm", "xmm", "ymm", "zmm"] if x86 else ["w", "x", "b", "h", "s", "d", "q", "v", "z", "p"]
    for t in regtypes:
        if rng.random() < 0.93:
            model["load_latency"][t] = rng.choice([0, 3.0, 4.0, 5.0, 8.0, None] if rng.random() < 0.3 else [4.0, 5.0, 6.0])
    if tables:
        for key, regkey in (("load_throughput", "dst"), ("store_throughput", "src")):
            rows = []
            for _ in range(rng.choice([0, 1, 2, 4, 6])):
                row = {"base": rng.choice(["*", "gpr" if x86 else "x"]), "index": rng.choice(["*", None, "gpr" if x86 else "x"]),
                       "offset": rng.choice(["*", None, "imd"]), "scale": rng.choice(["*", 1, 8])}
                if rng.random() < 0.6:
                    row[regkey] = rng.choice(regtypes)
                row["port_pressure"] = random_uops(rng, ports, 2)
                rows.append(row)
            model[key] = rows
        if rng.random() < 0.4:
            for key in ("load_throughput_multiplier", "store_throughput_multiplier"):
                if rng.random() < 0.8:
                    model[key] = {t: rng.choice([1.0, 1.0, 2.0, 0.5]) for t in regtypes if rng.random() < 0.93}
    return model


def dump_model(model, directory, name):
    import ruamel.yaml

    y = ruamel.yaml.YAML(typ="safe")
    y.default_flow_style = False
    path = os.path.join(directory, name + ".yml")
    with open(path, "w") as f:
        y.dump(model, f)
    return path


def model_text(model):
    import io
    import ruamel.yaml

    y = ruamel.yaml.YAML(typ="safe")
    y.default_flow_style = None
    buf = io.StringIO()
    y.dump(model, buf)
    return buf.getvalue()


# --------------------------------------------------------------------------- instructions
X86_POOL = ["%rax", "%rbx", "%r10d", "%cl", "%xmm3", "%xmm15", "%ymm2", "%ymm17", "%zmm31", "%mm2", "%k1", "%k7",
            "(%rax)", "8(%rax)", "0(%rax)", "(%rax,%rbx)", "(%rax,%rbx,4)", "lab1(%rip)", "-8(%rbp,%rcx,8)", "16(,%rbx,2)",
            "(,%rcx,1)", "1024", "0x40(%r8,%r9,1)", "lab2(,%rdx,8)", "(%rsi,%rdi,2)",
            "$1", "$-4", "$0x10", "$lab1"]
A64_POOL = ["x1", "w2", "sp", "xzr", "wzr", "d3", "s4", "q5", "h6", "b7", "v1.4s", "v2.2d", "v3.16b", "v4.s", "v5", "v6.8h",
            "z1.d", "z2.s", "z3", "p1", "p2/m", "p3/z", "p4.b", "v1.s[1]",
            "[x1]", "[x1, #8]", "[x1, x2]", "[x1, x2, lsl #3]", "[x1, #8]!", "[x1], #16", "[sp, #16]", "[x1, z2.d]", "[x3, #-16]!",
            "[x1, w2]", "[x9, x10, lsl #1]", "[x1, lab1]", "[x4], #-32", "[x1, z2.d, lsl #3]",
            "#1", "#0x10", "#-7", "#1.5", "#2.0e+1", "#1.5f", "eq", "NE", "lt", "lab1", ".L1"]


def near_misses(rng, isa, line):
    """texts derived from an instruction text: one operand replaced / removed / added, mnemonic
    with a suffix, without its last letter, in another case"""
    isa = isa.lower()
    pool = X86_POOL if isa == "x86" else A64_POOL
    mn, _, rest = line.partition(" ")
    ops = split_operands(rest)
    out = []
    kind = rng.choice(["flip", "flip", "flip", "drop", "add", "suffix", "suffix", "case", "chop"])
    if kind == "flip" and ops:
        j = rng.randrange(len(ops))
        ops2 = list(ops)
        ops2[j] = rng.choice(pool)
        out.append(join(mn, ops2))
    elif kind == "drop" and ops:
        ops2 = list(ops)
        del ops2[rng.randrange(len(ops2))]
        out.append(join(mn, ops2))
    elif kind == "add" and len(ops) < (4 if isa == "x86" else 5):
        ops2 = list(ops)
        ops2.insert(rng.randint(0, len(ops2)), rng.choice(pool))
        out.append(join(mn, ops2))
    elif kind == "suffix":
        sfx = rng.choice("bswlqtxd") if isa == "x86" else "." + rng.choice(["s", "d", "eq", "4s", "x.y"])
        out.append(join(mn + sfx, ops))
    elif kind == "case":
        out.append(join(rand_case(rng, mn.lower()), ops))
    elif kind == "chop" and len(mn) > 1:
        out.append(join(mn[:-1], ops))
    return out


def split_operands(rest):
    """split at top-level commas (not inside (), [], {})"""
    out, depth, cur = [], 0, ""
    for ch in rest:
        if ch in "([{":
            depth += 1
        elif ch in ")]}":
            depth -= 1
        if ch == "," and depth == 0:
            out.append(cur.strip())
            cur = ""
        else:
            cur += ch
    if cur.strip():
        out.append(cur.strip())
    # AArch64 post-index `[x1], #16` is one operand
    merged = []
    for t in out:
        if merged and merged[-1].endswith("]") and t.startswith("#") and merged[-1].startswith("["):
            merged[-1] = merged[-1] + ", " + t
        else:
            merged.append(t)
    return merged


def join(mn, ops):
    return (mn + " " + ", ".join(ops)).strip()


def random_instruction(rng, isa, names):
    isa = isa.lower()
    pool = X86_POOL if isa == "x86" else A64_POOL
    n = rng.choice([0, 1, 2, 2, 3, 3, 4])
    return join(rng.choice(names), [rng.choice(pool) for _ in range(n)])


def instructions_for(rng, isa, model, count):
    """mixture: written from an entry's own pattern (random fill), near-misses of those, random"""
    forms = S.expand_forms(model["instruction_forms"])
    names = sorted({str(n).lower() for _, n, _ in forms})
    out = []
    guard = 0
    while len(out) < count and guard < count * 20:
        guard += 1
        r = rng.random()
        if r < 0.15:
            out.append(random_instruction(rng, isa, names))
            continue
        _, name, e = rng.choice(forms)
        line, _ = S.synth_line(isa, rand_case(rng, str(name)) if rng.random() < 0.3 else str(name), e.get("operands"), S.Pick(rng))
        if line is None:
            continue
        if r < 0.55:
            out.append(line)
        else:
            out += near_misses(rng, isa, line)
    return out[:count]
