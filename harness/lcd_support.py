"""Shared machinery of C16 and C19: drive the REAL multi-process LCD search of
`osaca.semantics.kernel_dg.KernelDG.check_for_loopcarried_dep` under controlled worker counts,
seeded worker delays, real or virtual clocks, and observe it without changing the source:

  kernel_dg.cpu_count   -> chosen worker count
  kernel_dg.Process     -> recording factory (slices handed to the workers, dg, offset, pids, joins)
  kernel_dg.time        -> recording proxy (real clock) or virtual clock
  KernelDG._extend_path -> the original function, called with a delaying proxy of the shared list
                           (fork start method: the children inherit the wrapper)

Import only after `core.Env.activate()`.
"""
import contextlib
import hashlib
import itertools
import multiprocessing
import os
import random
import signal
import time as _time
from fractions import Fraction

from harness import core

HUGE = 10 ** 9


def frac(x):
    return core.frac(x)


class Kern:
    def __init__(self, name, arch, isa, text, kernel, parser, mm, sem):
        self.name, self.arch, self.isa, self.text = name, arch, isa, text
        self.kernel, self.parser, self.mm, self.sem = kernel, parser, mm, sem
        self.lines = [i.line_number for i in kernel]

    def describe(self):
        return {"name": self.name, "arch": self.arch, "klen": len(self.kernel), "text": self.text}


class Rec:
    """what one run of KernelDG(...) showed"""

    def __init__(self):
        self.sections = []
        self.dg = None
        self.offset = None
        self.procs = []
        self.pids = []
        self.t_first_start = None
        self.t_last_join = None
        self.readings = []
        self.sleeps = []
        self.lcd = None
        self.order = None
        self.timed_out = None
        self.wall = None
        self.error = None
        self.leftover = []
        self.n_workers = None
        self.cp = None
        self.text = None
        self.vclock = None

    @property
    def wait_wall(self):
        if self.t_first_start is None or self.t_last_join is None:
            return None
        return self.t_last_join - self.t_first_start


class _RecProcess:
    def __init__(self, real, rec):
        self._real, self._rec = real, rec

    def start(self):
        if self._rec.t_first_start is None:
            self._rec.t_first_start = _time.monotonic()
        self._real.start()
        self._rec.pids.append(self._real.pid)

    def join(self, *a, **kw):
        r = self._real.join(*a, **kw)
        self._rec.t_last_join = _time.monotonic()
        return r

    def __getattr__(self, name):
        return getattr(self._real, name)


class Watchdog(BaseException):
    pass


class _StubProcess:
    """no process at all: only the scheduling code of the source is exercised"""
    pid = None

    def start(self):
        pass

    def join(self, *a, **kw):
        pass

    def is_alive(self):
        return False


class _StubManager:
    def __enter__(self):
        return self

    def __exit__(self, *a):
        return False

    def list(self):
        return []


class _RealClock:
    """records the loop's clock readings and sleeps, real time"""

    def __init__(self, rec):
        self.rec = rec

    def time(self):
        t = _time.time()
        self.rec.readings.append(t)
        return t

    def sleep(self, d):
        self.rec.sleeps.append(d)
        _time.sleep(d)

    def __getattr__(self, name):
        return getattr(_time, name)


class VirtualClock:
    """Virtual time shared with the workers.  `time()` returns the virtual now; `sleep(d)` advances
    it by d (+ scripted overshoot) and then waits (really) until every batch scheduled up to the
    new now has been delivered and every worker whose last batch is due has exited, so that a
    virtual schedule is executed deterministically by real processes."""

    def __init__(self, rec, plan, overshoot=(), start=100.0):
        # plan: {worker index: [virtual delivery time of batch 0, 1, ...]} relative to start
        self.rec, self.plan, self.start = rec, plan, start
        self.now = multiprocessing.Value("d", start)
        self.acks = multiprocessing.Value("i", 0)
        self.overshoot = list(overshoot)
        self.nsleep = 0

    def time(self):
        self.settle()
        t = self.now.value
        self.rec.readings.append(t)
        return t

    def sleep(self, d):
        self.rec.sleeps.append(d)
        extra = self.overshoot[self.nsleep] if self.nsleep < len(self.overshoot) else 0.0
        self.nsleep += 1
        with self.now.get_lock():
            self.now.value = self.now.value + d + extra
        self.settle()

    def due(self, t):
        return sum(1 for times in self.plan.values() for x in times if self.start + x <= t)

    def settle(self, limit=20.0):
        t = self.now.value
        deadline = _time.monotonic() + limit
        want = self.due(t)
        while self.acks.value < want and _time.monotonic() < deadline:
            _time.sleep(0.002)
        # workers whose every batch is due exit right after the last one
        for w, p in enumerate(self.rec.procs):
            times = self.plan.get(w, [])
            if all(self.start + x <= t for x in times):
                while p.is_alive() and _time.monotonic() < deadline:
                    _time.sleep(0.002)

    def __getattr__(self, name):
        return getattr(_time, name)


class _DelayList:
    """proxy of the shared list handed to the real `_extend_path`: waits before every `extend`
    (seeded real delays, or until the virtual clock reaches the batch's delivery time)"""

    def __init__(self, real, delays=None, vclock=None, vtimes=None):
        self._real, self._delays, self._vclock, self._vtimes = real, delays, vclock, vtimes
        self._i = 0

    def _wait(self):
        i = self._i
        self._i += 1
        if self._vclock is not None:
            due = self._vclock.start + (self._vtimes[i] if i < len(self._vtimes) else 1e18)
            while self._vclock.now.value < due:
                _time.sleep(0.001)
        elif self._delays:
            d = self._delays[i] if i < len(self._delays) else 0.0
            if d > 0:
                _time.sleep(d)

    def _ack(self):
        if self._vclock is not None:
            with self._vclock.acks.get_lock():
                self._vclock.acks.value += 1

    def extend(self, items):
        self._wait()
        r = self._real.extend(items)
        self._ack()
        return r

    def append(self, item):
        return self._real.append(item)

    def __getattr__(self, name):
        return getattr(self._real, name)


def canon_lcd(lcd):
    """{key: (latency, ((line, lat), ...), root line)} and the dict's key order"""
    out, order = {}, []
    for k, v in lcd.items():
        deps = tuple((d.line_number, lat) for d, lat in v["dependencies"])
        out[k] = (v["latency"], deps, v["root"].line_number)
        order.append(k)
    return out, order


def children_alive():
    """pids of live (non-zombie) direct children of this process, from /proc"""
    me = os.getpid()
    out = []
    for d in os.listdir("/proc"):
        if not d.isdigit():
            continue
        try:
            with open("/proc/%s/stat" % d) as f:
                s = f.read()
        except OSError:
            continue
        rp = s.rfind(")")
        fields = s[rp + 2:].split()
        if len(fields) > 1 and int(fields[1]) == me and fields[0] != "Z":
            out.append(int(d))
    return out


class Lab:
    def __init__(self, ctx):
        self.ctx = ctx
        import osaca.semantics.kernel_dg as kdg
        from osaca.parser import ParserAArch64, ParserX86ATT
        from osaca.semantics import ArchSemantics, MachineModel, reduce_to_section

        self.kdg = kdg
        self.KernelDG = kdg.KernelDG
        self.orig = {
            "cpu_count": kdg.cpu_count, "Process": kdg.Process, "time": kdg.time, "Manager": kdg.Manager,
            "_extend_path": kdg.KernelDG.__dict__["_extend_path"],
            "thr": kdg.KernelDG.INSTRUCTION_THRESHOLD,
        }
        self._mk = (ParserX86ATT, ParserAArch64, ArchSemantics, MachineModel, reduce_to_section)
        self._models = {}
        if multiprocessing.get_start_method() != "fork":
            raise core.InfraError("fork start method needed")

    # ------------------------------------------------------------------ kernels
    def model(self, arch):
        if arch not in self._models:
            PX, PA, ArchSemantics, MachineModel, _ = self._mk
            mm = MachineModel(arch=arch)
            isa = MachineModel.get_isa_for_arch(arch)
            self._models[arch] = (mm, ArchSemantics(mm), isa)
        return self._models[arch]

    def kernel(self, name, arch, text):
        PX, PA, ArchSemantics, MachineModel, reduce_to_section = self._mk
        mm, sem, isa = self.model(arch)
        parser = PX() if isa == "x86" else PA()
        parsed = parser.parse_file(text)
        kernel = reduce_to_section(parsed, isa)
        sem.add_semantics(kernel)
        return Kern(name, arch, isa, text, kernel, parser, mm, sem)

    # ------------------------------------------------------------------ runs
    def restore(self):
        k = self.kdg
        k.cpu_count, k.Process, k.time = self.orig["cpu_count"], self.orig["Process"], self.orig["time"]
        k.Manager = self.orig["Manager"]
        k.KernelDG._extend_path = self.orig["_extend_path"]
        k.KernelDG.INSTRUCTION_THRESHOLD = self.orig["thr"]

    @contextlib.contextmanager
    def patched(self, workers=None, threshold=None, delays=None, start_delays=None, vplan=None,
                overshoot=(), stub=False, watchdog=None):
        """Patch the module for one call of the real code; yields the recording object.
        workers=None -> the sequential search (threshold patched high);
        threshold=None -> the source's own INSTRUCTION_THRESHOLD decides (workers given);
        delays: {worker: [seconds before batch 0, 1, ...]}, start_delays: {worker: seconds};
        vplan: {worker: [virtual delivery times]} -> virtual clock run;
        stub: no real processes / manager (only the scheduling code of the source runs);
        watchdog: seconds after which the call is interrupted (Watchdog exception)."""
        k = self.kdg
        rec = Rec()
        rec.n_workers = workers
        orig_extend = self.orig["_extend_path"]
        RealProcess = self.orig["Process"]

        def factory(*a, **kw):
            args = kw.get("args", a[2] if len(a) > 2 else ())
            p = _StubProcess() if stub else _RecProcess(RealProcess(*a, **kw), rec)
            try:
                rec.sections.append([i.line_number for i in args[1]])
                rec.dg, rec.offset = args[2], args[3]
            except Exception as e:  # changed call shape: leave what we have
                rec.error = "process-args:" + type(e).__name__
            rec.procs.append(p)
            return p

        vclock = VirtualClock(rec, vplan, overshoot) if vplan is not None else None
        rec.vclock = vclock

        def extend_wrapper(self_, dst_list, kernel, dg, offset):
            # which worker am I: position of my slice among the recorded ones
            first = kernel[0].line_number if kernel else None
            w = None
            for idx, sec in enumerate(rec.sections):
                if sec and sec[0] == first:
                    w = idx
            if start_delays and w in start_delays:
                _time.sleep(start_delays[w])
            proxy = _DelayList(dst_list, delays.get(w) if delays else None, vclock,
                               vplan.get(w, []) if vplan is not None else None)
            return orig_extend(self_, proxy, kernel, dg, offset)

        def on_alarm(signum, frame):
            raise Watchdog()

        old_handler = None
        try:
            if workers is None:
                k.KernelDG.INSTRUCTION_THRESHOLD = HUGE
            else:
                k.cpu_count = lambda: workers
                if threshold is not None:
                    k.KernelDG.INSTRUCTION_THRESHOLD = threshold
                k.Process = factory
                k.KernelDG._extend_path = extend_wrapper
                if stub:
                    k.Manager = _StubManager
            k.time = vclock if vclock is not None else _RealClock(rec)
            if watchdog:
                old_handler = signal.signal(signal.SIGALRM, on_alarm)
                signal.setitimer(signal.ITIMER_REAL, watchdog)
            t0 = _time.monotonic()
            try:
                yield rec
            except Watchdog:
                rec.error = "watchdog: no return within %.1fs" % watchdog
                for p in rec.procs:
                    with contextlib.suppress(Exception):
                        if p.is_alive():
                            os.kill(p.pid, signal.SIGKILL)
                        p.join(1)
            finally:
                if watchdog:
                    signal.setitimer(signal.ITIMER_REAL, 0)
                    signal.signal(signal.SIGALRM, old_handler)
                rec.wall = _time.monotonic() - t0
        finally:
            self.restore()
        if not stub:
            # reaping: nothing of ours may be left running
            t_end = _time.monotonic() + 1.0
            left = [p for p in rec.pids if _pid_alive(p)]
            while left and _time.monotonic() < t_end:
                _time.sleep(0.02)
                left = [p for p in rec.pids if _pid_alive(p)]
            rec.leftover = left

    def run(self, kern, workers=None, timeout=-1, flag_deps=False, want_cp=False, **kw):
        """One KernelDG(...) on the real code (see `patched` for the keywords)."""
        with self.patched(workers=workers, **kw) as rec:
            try:
                dg = self.kdg.KernelDG(kern.kernel, kern.parser, kern.mm, kern.sem, timeout, flag_deps)
                rec.timed_out = dg.timed_out
                rec.lcd, rec.order = canon_lcd(dg.loopcarried_deps)
                if want_cp:
                    try:
                        rec.cp = [(i.line_number, i.latency_cp) for i in dg.get_critical_path()]
                    except Exception as e:  # noqa
                        rec.cp = "exc:" + type(e).__name__
            except Watchdog:
                raise
            except Exception as e:  # noqa
                rec.error = "%s: %s" % (type(e).__name__, str(e)[:200])
        return rec

    def report(self, path, arch, extra_args=(), **kw):
        """full report text of `osaca --arch ARCH PATH` produced in-process by osaca.osaca.run"""
        import io

        import osaca.osaca as oo

        with self.patched(**kw) as rec:
            try:
                parser = oo.create_parser()
                args = parser.parse_args(["--arch", arch] + list(extra_args) + [path])
                oo.check_arguments(args, parser)
                buf = io.StringIO()
                oo.run(args, output_file=buf)
                args.file.close()
                rec.text = buf.getvalue()
            except Watchdog:
                raise
            except BaseException as e:  # noqa  (argparse exits)
                rec.error = "%s: %s" % (type(e).__name__, str(e)[:200])
                rec.text = None
        return rec

    # ------------------------------------------------------------------ graph views
    def batches(self, kern, rec, cap=None):
        """per kernel root: all simple paths root -> root+offset in the captured dg (networkx)"""
        import networkx as nx

        out = []
        total = 0
        for ln in kern.lines:
            if rec.dg.has_node(ln) and rec.dg.has_node(ln + rec.offset):
                gen = nx.all_simple_paths(rec.dg, ln, ln + rec.offset)
                if cap is not None:
                    paths = list(itertools.islice(gen, cap - total + 1))
                else:
                    paths = list(gen)
            else:
                paths = []
            total += len(paths)
            out.append(paths)
            if cap is not None and total > cap:
                return None
        return out

    def screen(self, kern, cap=3000, budget=3.0):
        """number of simple paths root -> root+offset over all roots, or None when there are more
        than `cap` or the enumeration needs more than `budget` seconds (done in a forked child so
        that it can be abandoned)"""
        import networkx as nx

        dg, offset = self.doubled_graph(kern)
        rd, wr = multiprocessing.Pipe(duplex=False)

        def work():
            total = 0
            for ln in kern.lines:
                if dg.has_node(ln) and dg.has_node(ln + offset):
                    for _ in nx.all_simple_paths(dg, ln, ln + offset):
                        total += 1
                        if total > cap:
                            wr.send(None)
                            return
            wr.send(total)

        p = multiprocessing.Process(target=work)
        p.start()
        res = None
        if rd.poll(budget):
            res = rd.recv()
        if p.is_alive():
            os.kill(p.pid, signal.SIGKILL)
        p.join()
        rd.close()
        wr.close()
        return res

    def doubled_graph(self, kern, flag_deps=False):
        """dg and offset exactly as check_for_loopcarried_dep builds them, without any search:
        a run with zero workers' worth of roots is not possible, so rebuild through the real
        create_DG on the doubled kernel (used only where no Process args were seen)."""
        import copy

        offset = max(1000, max(kern.lines) + 1)
        tmp = [] + kern.kernel
        for o in kern.kernel:
            t = copy.copy(o)
            t.line_number += offset
            tmp.append(t)
        obj = self.KernelDG.__new__(self.KernelDG)
        obj.kernel, obj.parser, obj.model, obj.arch_sem = kern.kernel, kern.parser, kern.mm, kern.sem
        return obj.create_DG(tmp, flag_deps), offset


def _pid_alive(pid):
    try:
        with open("/proc/%d/stat" % pid) as f:
            s = f.read()
        return s[s.rfind(")") + 2:].split()[0] != "Z"
    except OSError:
        return False


# ---------------------------------------------------------------------- protocol encodings
def enc_edges(dg):
    out = []
    for s, d, data in dg.edges(data=True):
        if float(s).is_integer() and float(d).is_integer():
            out.append("%d,%d,%s" % (int(s), int(d), frac(data["latency"])))
    return ";".join(out) or "-"


def enc_paths(paths):
    return ";".join(",".join(str(int(n)) for n in p) for p in paths) or "-"


def enc_batches(batches):
    return "/".join(enc_paths(b) for b in batches) if batches else "-"


def enc_nats(l):
    return ",".join(str(int(x)) for x in l) or "-"


def enc_result(lcd):
    """canonical {key: (latency, deps, root)} -> `l,lat;l,lat:latsum|...`"""
    items = []
    for k in sorted(lcd):
        lat, deps, _root = lcd[k]
        items.append("%s:%s" % (";".join("%d,%s" % (int(l), frac(x)) for l, x in deps) or "-", frac(lat)))
    return "|".join(items) or "-"


def parse_dict(reply):
    """driver `showDict` -> ordered [(key, latsum Fraction, [(line, lat Fraction)])]"""
    if reply == "-":
        return []
    out = []
    for item in reply.split("|"):
        key, latsum, deps = item.split(":")
        dl = []
        if deps != "-":
            for d in deps.split(";"):
                l, x = d.split(",")
                dl.append((int(l), Fraction(x)))
        out.append((key, Fraction(latsum), dl))
    return out


def same_result(model, lcd, tol=1e-9):
    """model (parse_dict) vs implementation canonical dict, as mappings"""
    if set(k for k, _, _ in model) != set(lcd):
        return False
    for k, latsum, deps in model:
        lat, ideps, _ = lcd[k]
        if abs(float(latsum) - lat) > tol or len(deps) != len(ideps):
            return False
        for (l1, x1), (l2, x2) in zip(deps, ideps):
            if l1 != l2 or abs(float(x1) - x2) > tol:
                return False
    return True


def same_lcd(a, b, tol=1e-9):
    """two implementation results as mappings (latencies up to tol)"""
    if set(a) != set(b):
        return False
    for k in a:
        (la, da, ra), (lb, db, rb) = a[k], b[k]
        if abs(la - lb) > tol or ra != rb or len(da) != len(db):
            return False
        for (l1, x1), (l2, x2) in zip(da, db):
            if l1 != l2 or abs(x1 - x2) > tol:
                return False
    return True


def float_hypotheses(dg, offset, paths):
    """The hypotheses of the theorems, on the implementation's own floats:
    sum_by_key   – paths with the same sorted lat_path have bit-identical float sums (summed in
                   path order as the code does);
    exact        – every float sum is the exact rational sum."""
    groups = {}
    exact = True
    for p in paths:
        lat_sum = 0.0
        ex = Fraction(0)
        lp = []
        for s, d in zip(p, p[1:]):
            e = dg.edges[s, d]["latency"]
            lp.append((s - offset if s >= offset else s, e))
            lat_sum += e
            ex += Fraction(e)
        lp.sort()
        if Fraction(lat_sum) != ex:
            exact = False
        groups.setdefault(tuple(lp), set()).add(lat_sum)
    bad = [k for k, v in groups.items() if len(v) > 1]
    return {"sum_by_key": not bad, "exact": exact, "bad": bad[:2], "cycles": len(groups)}


# ---------------------------------------------------------------------- kernel generators
X86_REGS = ["%rax", "%rbx", "%rcx", "%rdx", "%rsi", "%rdi", "%r8", "%r9", "%r10", "%r11", "%r12", "%r13"]
X86_VREGS = ["%%xmm%d" % i for i in range(12)]
A64_REGS = ["x%d" % i for i in range(1, 14)]
A64_VREGS = ["v%d" % i for i in range(12)]


def gen_x86(rng, n, density):
    """n instruction lines; `density` in (0,1]: smaller register pool = more dependencies"""
    nr = max(2, int(len(X86_REGS) * density))
    regs, vregs = X86_REGS[:nr], X86_VREGS[:max(2, int(len(X86_VREGS) * density))]
    out = []
    for _ in range(n):
        c = rng.random()
        if c < 0.35:
            out.append("\taddq\t%s, %s" % (rng.choice(regs), rng.choice(regs)))
        elif c < 0.5:
            out.append("\tmovq\t%s, %s" % (rng.choice(regs), rng.choice(regs)))
        elif c < 0.7:
            out.append("\tvaddpd\t%s, %s, %s" % (rng.choice(vregs), rng.choice(vregs), rng.choice(vregs)))
        elif c < 0.8:
            out.append("\tvmulpd\t%s, %s, %s" % (rng.choice(vregs), rng.choice(vregs), rng.choice(vregs)))
        elif c < 0.88:
            out.append("\tvmovapd\t%d(%s), %s" % (8 * rng.randrange(4), rng.choice(regs), rng.choice(vregs)))
        elif c < 0.94:
            out.append("\tvmovapd\t%s, %d(%s)" % (rng.choice(vregs), 8 * rng.randrange(4), rng.choice(regs)))
        elif c < 0.97:
            out.append("# comment line")
        else:
            out.append(".L%d:" % rng.randrange(10 ** 6))
    return "\n".join(out) + "\n"


def gen_a64(rng, n, density):
    nr = max(2, int(len(A64_REGS) * density))
    regs, vregs = A64_REGS[:nr], A64_VREGS[:max(2, int(len(A64_VREGS) * density))]
    out = []
    for _ in range(n):
        c = rng.random()
        if c < 0.4:
            out.append("\tadd\t%s, %s, %s" % (rng.choice(regs), rng.choice(regs), rng.choice(regs)))
        elif c < 0.5:
            out.append("\tmov\t%s, %s" % (rng.choice(regs), rng.choice(regs)))
        elif c < 0.7:
            out.append("\tfadd\t%s.2d, %s.2d, %s.2d" % (rng.choice(vregs), rng.choice(vregs), rng.choice(vregs)))
        elif c < 0.8:
            out.append("\tfmul\t%s.2d, %s.2d, %s.2d" % (rng.choice(vregs), rng.choice(vregs), rng.choice(vregs)))
        elif c < 0.88:
            out.append("\tldr\tq%s, [%s, #%d]" % (rng.choice(vregs)[1:], rng.choice(regs), 16 * rng.randrange(4)))
        elif c < 0.94:
            out.append("\tstr\tq%s, [%s, #%d]" % (rng.choice(vregs)[1:], rng.choice(regs), 16 * rng.randrange(4)))
        elif c < 0.97:
            out.append("// comment line")
        else:
            out.append(".L%d:" % rng.randrange(10 ** 6))
    return "\n".join(out) + "\n"


def pad_real(rng, text, isa, target):
    """a marked test kernel, its body repeated (unrolled) until it has at least `target` lines"""
    lines = text.split("\n")
    bs = [i for i, l in enumerate(lines) if "OSACA-BEGIN" in l]
    es = [i for i, l in enumerate(lines) if "OSACA-END" in l]
    b = bs[0] if bs else -1
    e = es[0] if es else len(lines)
    body = [l for l in lines[b + 1:e] if l.strip()]
    # drop the label and the closing branch so that the copies form one straight-line body
    core_lines = [l for l in body if not l.strip().endswith(":") and not l.strip().split()[0].startswith(("j", "b."))]
    out = []
    while len(out) < target:
        out += core_lines
    out = out[:target] if rng.random() < 0.5 else out
    return "\n".join(out) + "\n"


def stable_seed(*parts):
    return int(hashlib.sha256("/".join(str(p) for p in parts).encode()).hexdigest()[:12], 16)
