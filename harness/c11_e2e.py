"""C11 end-to-end worker: runs `osaca.osaca.run` (the CLI entry below argument parsing) in-process on a
list of (file, --lines) tasks for ONE architecture and returns parsed views of the analysis.

Started as a subprocess by harness/props/c11.py with HOME = the private data directory and
PYTHONPATH = the OSACA working tree:   python c11_e2e.py <job.json> <result.json>

The view of a run is taken from the objects `inspect` hands to `Frontend.full_analysis` (captured by
wrapping that method; nothing in /repo is changed) and from the printed report, parsed back into
rows.  No raw text is compared.
"""
import io
import json
import re
import sys
import time


def view_of(kernel, dg, fe, text):
    from osaca.semantics import ArchSemantics

    rows = []
    for x in kernel:
        rows.append({
            "num": x.line_number,
            "instr": x.mnemonic is not None,
            "text": re.sub(r"\s+", " ", x.line.strip()),
            "pressure": [float(v) for v in (x.port_pressure or [])],
            "tp": None if x.throughput is None else float(x.throughput),
            "lat": None if x.latency is None else float(x.latency),
            "lat_wo_load": None if x.latency_wo_load is None else float(x.latency_wo_load),
            "lat_cp": None if x.latency_cp is None else float(x.latency_cp),
            "lat_lcd": None if x.latency_lcd is None else float(x.latency_lcd),
            "flags": sorted(str(f) for f in (x.flags or [])),
            "uops": [[float(u[0]), sorted(str(p) for p in u[1])] for u in (x.port_uops or [])],
            "n_operands": len(x.operands or []),
        })
    tp_sum = ArchSemantics.get_throughput_sum(kernel) or list(kernel[0].port_pressure)
    cp = dg.get_critical_path()
    lcd = dg.get_loopcarried_dependencies()
    lcd_view = {}
    for k, v in lcd.items():
        lcd_view[str(k)] = {"latency": float(v["latency"]),
                            "deps": [[getattr(d[0], "line_number", None), float(d[1])] for d in v["dependencies"]]}
    # the printed combined report, parsed back: rows "<num> | cells... || CP | LCD |  flags text"
    table, summary = [], None
    in_comb = False
    lines = text.split("\n")
    for idx, ln in enumerate(lines):
        if ln.startswith("Combined Analysis Report"):
            in_comb = True
            continue
        if in_comb:
            m = re.match(r"^\s*(\d+) (\|.*)$", ln)
            if m:
                table.append([int(m.group(1)), m.group(2)])
            elif table and ln.strip() == "" and summary is None:
                # the summary row is the next non-empty line
                for nxt in lines[idx + 1: idx + 4]:
                    if nxt.strip():
                        summary = re.split(r"\s+", nxt.strip())
                        break
                break
    return {
        "rows": rows,
        "tp_sum": [float(v) for v in tp_sum],
        "cp_sum": float(sum(x.latency_cp for x in cp)),
        "cp_lines": [x.line_number for x in cp],
        "lcd": lcd_view,
        "lcd_sum": float(max([v["latency"] for v in lcd.values()] + [0.0])),
        "timed_out": bool(dg.timed_out),
        "table": table,
        "summary_row": summary,
    }


def main():
    job = json.load(open(sys.argv[1]))
    import osaca.osaca as O
    from osaca.frontend import Frontend

    cap = {}
    orig = Frontend.full_analysis

    def wrapped(self, kernel, kernel_dg, **kw):
        cap["kernel"], cap["dg"], cap["fe"] = kernel, kernel_dg, self
        return orig(self, kernel, kernel_dg, **kw)

    Frontend.full_analysis = wrapped
    out = []
    for t in job["tasks"]:
        argv = (["--arch", job["arch"]] if job.get("arch") else []) + ["--lcd-timeout", "-1", "--ignore-unknown"]
        if t.get("lines") is not None:
            argv += ["--lines", t["lines"]]
        argv.append(t["path"])
        res = {"id": t["id"]}
        t0 = time.time()
        try:
            cap.clear()
            p = O.create_parser()
            args = p.parse_args(argv)
            O.check_arguments(args, p)
            buf = io.StringIO()
            try:
                O.run(args, output_file=buf)
            finally:
                args.file.close()
            res["view"] = view_of(cap["kernel"], cap["dg"], cap["fe"], buf.getvalue())
        except BaseException as e:  # noqa  (SystemExit from argparse included)
            res["error"] = "%s: %s" % (type(e).__name__, str(e)[:300])
        res["wall"] = round(time.time() - t0, 3)
        out.append(res)
    with open(sys.argv[2], "w") as f:
        json.dump(out, f)


if __name__ == "__main__":
    main()
