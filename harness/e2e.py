"""End to end: from FILE TEXT to the report, inside the model (x86 and AArch64) -- driver ops `e2e.x86` / `e2e.a64`
(lean/OsacaVerif/Model/EndToEnd.lean, `analyse isa`: parse_file -> operand roles -> lookup / load-store composition / uniform
pressure -> register changes -> selection -> graph -> critical path -> LCD -> column sums -> report text)
against the real command-line path `create_parser -> check_arguments -> run` under `--fixed --lcd-timeout -1`.

The model gets NOTHING from the implementation but the inputs of the run: the file text, the raw YAML of the
machine model, the options, and the four header fields of the report (version, file name, architecture, time stamp
-- read off the real text).  Compared: outcome (analysis / exception), selected line numbers, per line latency,
latency without load, throughput, uniform pressure vector, flags, used-port mask; every dependency edge with weight;
critical path total and marks; the LCD dictionary; column sums (1e-9); and the report text byte for byte.

(a) synthetic x86 models (harness/c07models.random_model, made exactly representable, plus forms for the mnemonics
    of harness/dgenc.gen_x86_kernel so that the shipped ISA database's roles, hidden flag operands, zero idioms and
    operations take part), installed as user model `skx` in the private HOME (the shipped skx.yml is empty here);
(b) shipped x86 models restricted to the entries the file can reach (the forms whose name is a mnemonic of the file
    or its fall-back spelling).

AArch64 half (`e2e.a64`, `analyseA64`): the same comparison on
(c) synthetic AArch64 models (c07models.random_model "aarch64" + forms for the mnemonics of dgenc.gen_a64_kernel: register
    forms that the load/store composition completes, own memory entries with and without pre-/post-index), installed as
    user model `a72` in the private HOME for the duration of the runs; kernels with pre-/post-indexed memory operands
    (post-indexed by a number and, on the SIMD structure loads/stores, by a REGISTER: `ld1 {v0.2d}, [x1], x2`),
    register lists and ranges, condition codes, prefetch operands, unknown mnemonics, noise lines; AArch64 byte markers
    (`mov x1, #111` + `.byte 213,3,32,31`) and comment markers, `--lines`, `-f`/`--consider-flag-deps`, +- `--ignore-unknown`;
(d) shipped AArch64 models (tx2, a64fx) restricted to the reachable entries.

A disagreement is `ctx.correspondence_break("e2e", detail)`.

Optimal scheduling (`opt=True`, driver op `e2e.opt`, `EndToEnd.analyseWith`): the same runs WITHOUT `--fixed`.  The balancer
`ArchSemantics.assign_optimal_throughput` (called twice by `osaca.inspect`) is wrapped: the per-line `port_pressure` after
call 1 (P1) and after call 2 (P2, what the CLI prints) are sent with the file text, the model and the options.  The model
evaluates `analyseWith ... P2` -- compared exactly as under `--fixed`: only the pressure cells are the implementation's, the
totals, formatting, graph, CP, LCD, selection are the model's own (`ctx.correspondence_break("e2e-opt", ...)`) -- and judges
P1 admissible or not (`Spec.checkFeasible` per instruction line against the line's micro-ops, slack INC/2 per micro-op):
an inadmissible first-pass vector is `ctx.violation(..., key=None)` with a replay of kind `e2e-opt`; the final state is only
counted (known C01 finding `second-pass`).
"""
import io
import os
import random
import re

from harness import c07models as M
from harness import c07synth as S
from harness import c11_lib as L
from harness import core, dgenc, pipeline, pressure
from harness.core import esc

SYN_ARCH = "skx"           # an x86 arch code whose shipped file is empty in this tree: free for a user model
SYN_ARCH_A64 = "a72"       # every AArch64 arch code has a shipped file: the private copy of this one is replaced and restored
MODEL_KEYS = ["ports", "instruction_forms", "load_throughput", "store_throughput", "load_throughput_default",
              "store_throughput_default", "load_latency", "load_throughput_multiplier", "store_throughput_multiplier"]
ISA_CFG = {
    "x86": {"op": "e2e.x86", "isa_arg": "x86", "syn_arch": SYN_ARCH},
    "aarch64": {"op": "e2e.a64", "isa_arg": "aarch64", "syn_arch": SYN_ARCH_A64},
}
LAT = [0.0, 1.0, 1.0, 2.0, 3.0, 4.0, 0.5, 6.0, 2.5]
CYC = [0.25, 0.5, 1.0, 1.0, 1.0, 1.5, 2.0, 3.0]

# mnemonics of dgenc.gen_x86_kernel / gen_memdep_x86 with register forms they can match (directly, through the
# AT&T suffix fall-back, or as the register form of a load/store composition)
VOCAB = {
    "add": [("gpr", "gpr"), ("imd", "gpr")], "sub": [("gpr", "gpr"), ("imd", "gpr")], "imul": [("gpr", "gpr")],
    "and": [("gpr", "gpr")], "or": [("gpr", "gpr")], "xor": [("gpr", "gpr")], "mov": [("gpr", "gpr"), ("imd", "gpr")],
    "cmp": [("gpr", "gpr"), ("imd", "gpr")], "test": [("gpr", "gpr")], "shl": [("imd", "gpr")],
    "inc": [("gpr",)], "dec": [("gpr",)], "neg": [("gpr",)], "not": [("gpr",)], "lea": [("mem", "gpr")],
    "vaddpd": [("xmm", "xmm", "xmm")], "vmulpd": [("xmm", "xmm", "xmm")], "vsubpd": [("xmm", "xmm", "xmm")],
    "vfmadd231pd": [("xmm", "xmm", "xmm"), ("ymm", "ymm", "ymm")], "vxorpd": [("xmm", "xmm", "xmm")],
    "vpxor": [("xmm", "xmm", "xmm")], "addsd": [("xmm", "xmm")], "mulsd": [("xmm", "xmm")], "movapd": [("xmm", "xmm")],
    "pxor": [("xmm", "xmm")], "xorps": [("xmm", "xmm")], "vmovapd": [("xmm", "xmm")], "vmovupd": [("xmm", "xmm")],
    "movsd": [("xmm", "xmm")], "vmovsd": [("xmm", "xmm")], "jne": [("id",)], "ja": [("id",)],
}


# --------------------------------------------------------------------------- models
def _exact_uops(rng, pp):
    """micro-ops whose uniform split is exactly representable: 1, 2 or 4 ports, dyadic cycles"""
    out = []
    for u in pp or []:
        c, ps = u
        items = list(ps)
        if len(items) == 3:
            items = items[:2]
        elif len(items) > 4:
            items = items[:4]
        ps2 = "".join(items) if isinstance(ps, str) else items
        out.append([float(rng.choice(CYC)) if c not in CYC else float(c), ps2])
    return out


def _num(x, rng, pool):
    if x is None:
        return None
    x = float(x)
    return x if (x * 4).is_integer() else float(rng.choice(pool))


def operand_of(kind):
    if kind == "imd":
        return {"class": "immediate", "imd": "int"}
    if kind == "id":
        return {"class": "identifier"}
    if kind == "mem":
        return {"class": "memory", "base": "*", "offset": "*", "index": "*", "scale": "*"}
    return {"class": "register", "name": kind}


def synthetic_model(rng):
    """a c07models x86 model, every number exactly representable, plus forms for a random part of VOCAB"""
    m = M.random_model(rng, "x86", n_forms=rng.choice([8, 12, 16]), tables=True, missing=rng.random() < 0.3, role_prob=0.5)
    ports = m["ports"]
    for f in m["instruction_forms"]:
        f["port_pressure"] = _exact_uops(rng, f["port_pressure"])
        f["throughput"] = _num(f["throughput"], rng, CYC)
        f["latency"] = _num(f["latency"], rng, LAT)
    for key in ("load_throughput", "store_throughput"):
        for row in m[key]:
            row["port_pressure"] = _exact_uops(rng, row["port_pressure"])
    for key in ("load_throughput_default", "store_throughput_default"):
        m[key] = _exact_uops(rng, m[key])
    m["load_latency"] = {k: (None if v is None else float(v)) for k, v in m["load_latency"].items()}
    for key in ("load_throughput_multiplier", "store_throughput_multiplier"):
        if key in m:
            m[key] = {k: float(v) for k, v in m[key].items()}
    voc = []
    for name, sigs in VOCAB.items():
        if rng.random() < 0.2:
            continue                                        # this mnemonic is unknown to the model
        for sig in sigs:
            if rng.random() < 0.15:
                continue
            tp, lat, pp = M.payload(rng, ports, missing=rng.random() < 0.1)
            written = name + "q" if (rng.random() < 0.1 and sig[-1] == "gpr") else name
            form = {"name": M.rand_case(rng, written), "operands": [operand_of(k) for k in sig], "throughput": _num(tp, rng, CYC),
                    "latency": _num(lat, rng, LAT), "port_pressure": _exact_uops(rng, pp)}
            voc.append(form)
            if rng.random() < 0.12:
                # an exact duplicate with another payload: the first one in file order must win
                tp2, lat2, pp2 = M.payload(rng, ports, missing=False)
                voc.append(dict(form, throughput=_num(tp2, rng, CYC), latency=_num(lat2, rng, LAT), port_pressure=_exact_uops(rng, pp2)))
            if rng.random() < 0.1 and "xmm" in sig:
                # an own entry for a memory form (no composition for this shape)
                ops = [operand_of(k) for k in sig]
                ops[0] = {"class": "memory", "base": "*", "offset": "*", "index": None, "scale": 1}
                tp2, lat2, pp2 = M.payload(rng, ports, missing=False)
                voc.append({"name": name, "operands": ops, "throughput": _num(tp2, rng, CYC), "latency": _num(lat2, rng, LAT),
                            "port_pressure": _exact_uops(rng, pp2)})
    pos = rng.randrange(len(m["instruction_forms"]) + 1)
    m["instruction_forms"][pos:pos] = voc
    m["store_to_load_forward_latency"] = float(rng.choice([0.0, 0.0, 2.0, 4.0]))
    m["arch_code"] = SYN_ARCH.upper()
    return m


def install_model(ctx, model, arch=SYN_ARCH):
    from osaca.semantics import MachineModel

    import ruamel.yaml

    # `Frontend` loads the model lazily: it reads the file up to the line `instruction_forms:` -- that key goes last
    y = ruamel.yaml.YAML(typ="safe")
    y.default_flow_style = False
    path = os.path.join(ctx.env.data, arch + ".yml")
    with open(path, "w") as f:
        y.dump({k: v for k, v in model.items() if k != "instruction_forms"}, f)
        y.dump({"instruction_forms": model["instruction_forms"]}, f)
    MachineModel._runtime_cache.pop(path, None)
    return path


def restrict_model(raw, mnemonics, isa="x86"):
    """a shipped model cut down to the forms a file with these mnemonics can reach"""
    want = set()
    for mn in mnemonics:
        want.add(mn.upper())
        if isa == "x86" and mn and mn[-1] in "bswlqt":
            want.add(mn[:-1].upper())
        if isa != "x86" and "." in mn:
            want.add(mn.split(".")[0].upper())
    forms = []
    for f in raw.get("instruction_forms") or []:
        n = f.get("name")
        names = n if isinstance(n, list) else [n]
        if any(str(x).upper() in want for x in names):
            forms.append(f)
    out = {k: raw[k] for k in MODEL_KEYS if k in raw}
    out["instruction_forms"] = forms
    return out


def has_alternatives(model):
    """entries whose `port_pressure` is a dict of alternatives are outside the model's domain"""
    return any(isinstance(f.get("port_pressure"), dict) for f in model.get("instruction_forms") or [])


# --------------------------------------------------------------------------- AArch64 models
# mnemonics of dgenc.gen_a64_kernel / gen_memdep_a64 with forms they can match (directly, through the `.`-suffix
# fall-back, or as the register form of a load/store composition: the memory operand becomes the register wildcard)
A64_MEM = "mem"
A64_VOCAB = {
    "add": [("x", "x", "x"), ("w", "w", "w"), ("x", "x", "imd"), ("w", "w", "imd")],
    "sub": [("x", "x", "x"), ("w", "w", "w"), ("x", "x", "imd"), ("w", "w", "imd")],
    "adds": [("x", "x", "x"), ("w", "w", "w"), ("x", "x", "imd"), ("w", "w", "imd")],
    "subs": [("x", "x", "x"), ("w", "w", "w"), ("x", "x", "imd"), ("w", "w", "imd")],
    "mul": [("x", "x", "x"), ("w", "w", "w")], "and": [("x", "x", "x"), ("w", "w", "w")],
    "orr": [("x", "x", "x"), ("w", "w", "w")], "eor": [("x", "x", "x"), ("w", "w", "w")],
    "mov": [("x", "x")], "cmp": [("x", "x"), ("w", "imd")],
    "fadd": [("d", "d", "d"), ("s", "s", "s"), ("v.d", "v.d", "v.d")],
    "fmul": [("d", "d", "d"), ("s", "s", "s"), ("v.d", "v.d", "v.d")],
    "fsub": [("d", "d", "d"), ("s", "s", "s")], "fmla": [("v.d", "v.d", "v.d")], "fmadd": [("d", "d", "d", "d")],
    "ldr": [("d", "x"), ("q", "x"), ("x", "x"), ("d", A64_MEM), ("x", A64_MEM)],
    "str": [("d", "x"), ("q", "x"), ("x", "x"), ("d", A64_MEM), ("q", A64_MEM)],
    "ldp": [("d", "d", "x"), ("d", "d", A64_MEM)], "stp": [("d", "d", "x"), ("d", "d", A64_MEM)],
    "ld1": [("v.d", "v.d", "x"), ("v.d", "x"), ("v.d", A64_MEM)], "st1": [("v.d", "v.d", "x"), ("v.d", "x"), ("v.d", A64_MEM)],
    "ld1r": [("v.d", "x")], "ld2": [("v.d", "v.d", A64_MEM)],
    "b": [("id",)], "bne": [("id",)], "csel": [("x", "x", "x", "cc")], "prfm": [("prf", "x")],
}


def a64_operand_of(rng, kind):
    if kind == "imd":
        return {"class": "immediate", "imd": "int"}
    if kind == "id":
        return {"class": "identifier"}
    if kind == "cc":
        return {"class": "condition", "ccode": "*"}
    if kind == "prf":
        return {"class": "prfop", "type": "*", "target": "*", "policy": "*"}
    if kind == A64_MEM:
        pre, post = rng.choice([(False, False), (False, False), (True, False), (False, True), ("*", "*")])
        return {"class": "memory", "base": rng.choice(["x", "*"]), "offset": rng.choice(["*", "*", "imd", None]),
                "index": rng.choice(["*", "*", None]), "scale": rng.choice(["*", "*", 1]), "pre_indexed": pre, "post_indexed": post}
    if kind.startswith("v."):
        return {"class": "register", "prefix": "v", "shape": kind[2:]}
    return {"class": "register", "prefix": kind}


def synthetic_model_a64(rng):
    """a c07models AArch64 model, every number exactly representable, plus forms for a random part of A64_VOCAB"""
    m = M.random_model(rng, "aarch64", n_forms=rng.choice([8, 12, 16]), tables=True, missing=rng.random() < 0.3, role_prob=0.5)
    ports = m["ports"]
    for f in m["instruction_forms"]:
        f["port_pressure"] = _exact_uops(rng, f["port_pressure"])
        f["throughput"] = _num(f["throughput"], rng, CYC)
        f["latency"] = _num(f["latency"], rng, LAT)
    for key in ("load_throughput", "store_throughput"):
        for row in m[key]:
            row["port_pressure"] = _exact_uops(rng, row["port_pressure"])
    for key in ("load_throughput_default", "store_throughput_default"):
        m[key] = _exact_uops(rng, m[key])
    m["load_latency"] = {k: (None if v is None else float(v)) for k, v in m["load_latency"].items()}
    for key in ("load_throughput_multiplier", "store_throughput_multiplier"):
        if key in m:
            m[key] = {k: float(v) for k, v in m[key].items()}
    if rng.random() < 0.75:
        # no missing register-type keys (a missing key is a KeyError of `assign_tp_lt` that ends the whole run: kept for a quarter)
        for t in ["w", "x", "b", "h", "s", "d", "q", "v", "z", "p"]:
            m["load_latency"].setdefault(t, float(rng.choice([4.0, 5.0, 6.0])))
            for key in ("load_throughput_multiplier", "store_throughput_multiplier"):
                if key in m:
                    m[key].setdefault(t, float(rng.choice([1.0, 2.0, 0.5])))
    voc = []
    for name, sigs in A64_VOCAB.items():
        if rng.random() < 0.15:
            continue                                        # this mnemonic is unknown to the model
        for sig in sigs:
            if rng.random() < (0.5 if A64_MEM in sig else 0.12):
                continue
            tp, lat, pp = M.payload(rng, ports, missing=rng.random() < 0.1)
            written = name + ".ne" if name == "b" and rng.random() < 0.5 else name       # `b.ne` has an entry of its own, or falls back to `b`
            form = {"name": M.rand_case(rng, written), "operands": [a64_operand_of(rng, k) for k in sig], "throughput": _num(tp, rng, CYC),
                    "latency": _num(lat, rng, LAT), "port_pressure": _exact_uops(rng, pp)}
            voc.append(form)
            if rng.random() < 0.1:
                tp2, lat2, pp2 = M.payload(rng, ports, missing=False)      # exact duplicate: the first one in file order wins
                voc.append(dict(form, throughput=_num(tp2, rng, CYC), latency=_num(lat2, rng, LAT), port_pressure=_exact_uops(rng, pp2)))
    pos = rng.randrange(len(m["instruction_forms"]) + 1)
    m["instruction_forms"][pos:pos] = voc
    m["store_to_load_forward_latency"] = float(rng.choice([0.0, 0.0, 2.0, 4.0]))
    m["p_index_latency"] = float(rng.choice([1.0, 1.0, 0.0, 2.0, 3.0]))
    m["arch_code"] = SYN_ARCH_A64.upper()
    return m


A64_CHAIN = ["ldr d1, [x2], #8", "fadd d3, d1, d4", "ldr d5, [x2, #16]!", "fmul d6, d5, d3", "str d6, [x7, x8, lsl #3]", "add x8, x8, #1",
             "zzunknown x2, x9", "ld1 {v0.2d, v1.2d}, [x4], #32", "fmla v2.2d, v0.2d, v1.2d", "st1 {v2.2d - v3.2d}, [x5]",
             "stp d6, d3, [x7, #-16]!", "ldp d8, d9, [x7], #16", "subs x9, x9, #1", "csel x10, x9, x8, ne", "prfm pldl1keep, [x2, #64]",
             "b.ne .L1"]
# post-indexed by a register: the base is written back by an unknown amount (the write-back edge carries p_index_latency, the
# store->load tracking loses the base)
A64_CHAIN_POSTREG = ["str d6, [x7]", "ld1 {v0.2d}, [x7], x9", "fadd d3, d0, d4", "ldr d5, [x7]", "st1 {v2.2d}, [x5], x9", "add x5, x5, #16",
                     "ld1r {v4.2d}, [x2], x11", "ldr d1, [x2, #8]", "ld1 {v0.2d, v1.2d}, [x4], x9", "fmla v2.2d, v0.2d, v1.2d", "subs x9, x9, #1"]


def gen_scaledep_a64(rng):
    """a store and a load through `[base, index, <shift> #s]` whose addresses coincide only if the scale is `2 ** s`: the index
    moves by k, the base by -k * 2**s (both with known register changes: `add`/`sub` with an immediate)"""
    b, i, o = rng.sample([1, 2, 3, 4, 5, 6, 7], 3)
    s_ = rng.choice([0, 1, 2, 3, 3, 3, 4])
    k = rng.choice([1, 2, 4])
    ext = rng.choice(["lsl", "lsl", "sxtx"])
    addr = "[x%d, x%d, %s #%d]" % (b, i, ext, s_)
    lines = ["str d1, " + addr, "add x%d, x%d, #%d" % (i, i, k)]
    if rng.random() < 0.85:
        lines.append("sub x%d, x%d, #%d" % (b, b, k << s_))
    if rng.random() < 0.3:
        lines.append("fadd d4, d4, d5")
    lines += [rng.choice(["ldr d2, ", "ldr x%d, " % o]) + addr, "fadd d3, d2, d2" if rng.random() < 0.7 else "add x9, x%d, x%d" % (o, o)]
    if rng.random() < 0.4:
        lines.append("ldr d6, [x%d, x%d, lsl #0]" % (b, i))       # scale 2 ** 0 = 1: matches the entries that declare scale 1
    return lines


STRUCT_MNEMONICS = ("ld1", "ld2", "ld3", "ld4", "st1", "st2", "st3", "st4")


def glue_domain_a64(parser, line):
    """is the parsed line inside the domain of the AArch64 glue (Model/Glue.lean): every memory operand has no offset or an
    integer offset, every post-index is a plain number -- or, on the SIMD structure loads/stores (the instructions that
    allow it), a register: `ld1 {v0.2d}, [x1], x2`; None = the parser rejects the line.
    (Elsewhere a register post-index stays outside: the parser model does not keep WHICH register it is, so two memory
    DESTINATIONS that differ in it only would be equal in the model and unequal in Python -- `is_memstore`.)"""
    try:
        f = parser.parse_line(line, 1)
    except Exception:  # noqa
        return None
    for o in f.operands or []:
        if type(o).__name__ == "MemoryOperand":
            off = o.offset
            if off is not None and not (type(off).__name__ == "ImmediateOperand" and isinstance(off.value, int)):
                return False
            po = o.post_indexed
            by_register = (isinstance(po, dict) and set(po) == {"identifier"} and set(po["identifier"]) == {"name"}
                           and (f.mnemonic or "").lower()[:3] in STRUCT_MNEMONICS)
            if po is not False and not by_register and not (isinstance(po, dict) and set(po) == {"value"} and isinstance(po["value"], int)):
                return False
            if not isinstance(o.scale, int):
                return False
    return True


def body_for_a64(rng, model, parser):
    kind = rng.choice(["dgenc", "dgenc", "mixed", "synth", "memdep", "chain", "scaledep"])
    if kind == "dgenc":
        body = dgenc.gen_a64_kernel(rng, rng.randint(2, 10), mem=True, npool=rng.choice([2, 3, 4]))
    elif kind == "memdep":
        body = dgenc.gen_memdep_a64(rng)[0]
    elif kind == "scaledep":
        body = gen_scaledep_a64(rng)
    elif kind == "chain":
        if rng.random() < 0.4:
            a = rng.randrange(0, 5)
            body = A64_CHAIN_POSTREG[a:a + rng.randrange(3, 8)]
        else:
            a = rng.randrange(0, 6)
            body = A64_CHAIN[a:a + rng.randrange(3, 9)]
    else:
        body = M.instructions_for(rng, "aarch64", model, rng.randint(2, 8))
        if kind == "mixed":
            body += dgenc.gen_a64_kernel(rng, rng.randint(1, 5), mem=True, npool=2)
            rng.shuffle(body)
    out = []
    for b in body:
        d = glue_domain_a64(parser, b)
        if d is False:
            continue                         # identifier / float offset, symbolic post-index on a plain load/store: outside the glue's domain
        if d is None and rng.random() < 0.97:
            continue
        out.append(b)
    if rng.random() < 0.3:
        out.insert(rng.randrange(len(out) + 1), "zzunknown%d x0, x3" % rng.randrange(3))
    return out


# --------------------------------------------------------------------------- kernels
def parseable(parser, line):
    try:
        parser.parse_line(line, 1)
        return True
    except Exception:  # noqa
        return False


def body_for(rng, model, parser):
    kind = rng.choice(["dgenc", "dgenc", "mixed", "synth", "memdep", "chain"])
    if kind == "dgenc":
        body = dgenc.gen_x86_kernel(rng, rng.randint(2, 10), mem=True, npool=rng.choice([2, 3, 4]))
    elif kind == "memdep":
        body = dgenc.gen_memdep_x86(rng)[0]
    elif kind == "chain":
        body = ["vaddpd %xmm1, %xmm2, %xmm3", "vmulpd (%rax), %xmm3, %xmm5", "vaddpd %xmm5, %xmm6, %xmm1", "addq $8, %rax",
                "zzunknown %rax, %rbx", "cmpq %rbx, %rax", "jne .L1"][:rng.randrange(3, 8)]
    else:
        body = M.instructions_for(rng, "x86", model, rng.randint(2, 8))
        if kind == "mixed":
            body += dgenc.gen_x86_kernel(rng, rng.randint(1, 5), mem=True, npool=2)
            rng.shuffle(body)
    out = []
    for b in body:
        if re.search(r"[A-Za-z_.][\w.]*\(", b) or "%st(" in b:
            continue                         # identifier displacement / indexed register: outside the glue's domain
        if not parseable(parser, b) and rng.random() < 0.97:
            continue
        out.append(b)
    if rng.random() < 0.3:
        out.insert(rng.randrange(len(out) + 1), "zzunknown%d %%rax, %%rcx" % rng.randrange(3))
    return out


# --------------------------------------------------------------------------- the real run
class OptCapture:
    """wrap ArchSemantics.assign_optimal_throughput for the duration of a run: the per-line `port_pressure` after every
    top-level call (the recursion over alternative port assignments is inside a call), and the call that raised"""

    def __enter__(self):
        from osaca.semantics import ArchSemantics

        self.cls = ArchSemantics
        self.orig = ArchSemantics.assign_optimal_throughput
        self.snaps, self.raised_in, self.depth, self.pre = [], None, 0, None
        me = self

        def assign_optimal_throughput(sem, kernel, start=0):
            me.depth += 1
            if me.depth == 1 and me.pre is None:
                me.pre = [(i.line_number, [float(v) for v in (i.port_pressure or [])]) for i in kernel]
            try:
                try:
                    return me.orig(sem, kernel, start)
                except BaseException:
                    if me.depth == 1 and me.raised_in is None:
                        me.raised_in = len(me.snaps) + 1
                    raise
            finally:
                me.depth -= 1
                if me.depth == 0 and me.raised_in is None:
                    me.snaps.append([(i.line_number, [float(v) for v in (i.port_pressure or [])]) for i in kernel])

        ArchSemantics.assign_optimal_throughput = assign_optimal_throughput
        return self

    def __exit__(self, *a):
        self.cls.assign_optimal_throughput = self.orig
        return False


def run_cli(arch, path, lines_spec, flag_deps, ignore_unknown, fixed=True):
    """the real command line in-process; `fixed=False`: the default (optimal) scheduling, with the pressures after each of
    the balancing passes in `res["snaps"]` and the pass that raised (if any) in `res["balancer_raised"]`"""
    import osaca.osaca as O

    argv = ["--arch", arch] + (["--fixed"] if fixed else []) + ["--lcd-timeout", "-1"]
    if ignore_unknown:
        argv.append("--ignore-unknown")
    if flag_deps:
        argv.append("--consider-flag-deps")
    if lines_spec is not None:
        argv += ["--lines", lines_spec]
    argv.append(path)
    out = io.StringIO()
    with pipeline.Capture() as c, OptCapture() as oc:
        try:
            p = O.create_parser()
            args = p.parse_args(argv)
            O.check_arguments(args, p)
            try:
                O.run(args, output_file=out)
            finally:
                args.file.close()
        except BaseException as e:  # noqa
            res = dict(c.cap)
            res["error"] = "%s: %s" % (type(e).__name__, str(e)[:200])
            res["exc"] = type(e).__name__
            res["snaps"], res["balancer_raised"], res["pre"] = oc.snaps, oc.raised_in, oc.pre
            return res
        res = dict(c.cap)
    res["snaps"], res["balancer_raised"], res["pre"] = oc.snaps, oc.raised_in, oc.pre
    printed = out.getvalue()
    res["text"] = printed[:-1] if printed.endswith("\n") else printed
    return res


def header_bits(text):
    ls = text.split("\n")
    version = ls[0].split(" - ", 1)[1] if " - " in ls[0] else ""
    vals = [(l[20:] if len(l) >= 20 else "") for l in ls[1:4]]
    return version, vals[0], vals[1], vals[2]


def impl_flags(kernel, ports):
    out = []
    for ins in kernel:
        used = set()
        for u in ins.port_uops or []:
            used.update(list(u[1]))
        out.append((ins.line_number, sorted(set(str(f) for f in ins.flags)), "".join("1" if p in used else "0" for p in ports)))
    return out


def parse_extra(rep):
    """flags / used / report sections of the reply"""
    out = {}
    for tok in rep.split(" ")[1:]:
        k, _, v = tok.partition("=")
        out[k] = v
    flags, used = {}, {}
    for t in (out.get("flags") or "").split("|"):
        if t:
            n, _, fl = t.partition(":")
            flags[int(n)] = sorted(set(x for x in fl.split(",") if x))
    for t in (out.get("used") or "").split("|"):
        if t:
            n, _, mk = t.partition(":")
            used[int(n)] = mk
    text = core.unesc(out["report"]) if "report" in out else None
    return flags, used, text


def first_text_diff(a, b):
    la, lb = (a or "").split("\n"), (b or "").split("\n")
    for i in range(max(len(la), len(lb))):
        x = la[i] if i < len(la) else None
        y = lb[i] if i < len(lb) else None
        if x != y:
            return {"line": i, "model": x, "impl": y}
    return None


# --------------------------------------------------------------------------- the correspondence
def compare_case(ctx, c, reply, st):
    """-> description of the first disagreement, or None"""
    res = c["res"]
    head = reply.split(" ")[0]
    if head == "sem-error" and reply.split(" ")[-1] == "unsupported":
        st["outside_domain"] = st.get("outside_domain", 0) + 1      # a value outside the model (float immediate under an operation)
        return None
    if "error" in res:
        st["impl_errors"] += 1
        if head in ("parse-error", "sem-error", "empty", "badlines", "raise", "badisa"):
            st["errors_agreed"] += 1
            st["outcome_" + head] = st.get("outcome_" + head, 0) + 1
            if head == "parse-error" and "parsed" in res:
                return "model: parse error on line %s; the implementation parsed the file and raised %s" % (reply, res["error"])
            if head != "parse-error" and "parsed" not in res:
                return "model: %s; the implementation raised while parsing: %s" % (head, res["error"])
            if head == "sem-error" and reply.split(" ")[-1] != res.get("exc"):
                return "model: %s; the implementation raised %s" % (reply, res["error"])
            return None
        return "the implementation raised %s, the model produced an analysis" % res["error"]
    if head != "ok":
        return "model outcome '%s', the implementation printed a report" % reply[:60]
    m = pipeline.parse_reply(reply)
    im = pipeline.impl_view(res)
    st["compared"] += 1
    st["edges"] += len(im["edges"])
    st["cycles"] += len(im["lcd"])
    d = pipeline.diff_model_impl(m, im, ctx.counts)
    if d:
        return d
    flags, used, text = parse_extra(reply)
    ports = list(res["dg"].model["ports"])
    for (n, fl, mask) in impl_flags(res["kernel"], ports):
        if flags.get(n) != fl:
            return "flags of line %d: model %s impl %s" % (n, flags.get(n), fl)
        if used.get(n, "") != mask:
            return "used ports of line %d: model %s impl %s" % (n, used.get(n), mask)
        if "tp_unknown" in fl:
            st["unknown_lines"] += 1
        if "performs_load" in fl or "performs_store" in fl:
            st["memory_lines"] += 1
    st["lines"] += len(res["kernel"])
    st["postreg_lines"] = st.get("postreg_lines", 0) + sum(
        1 for ins in res["kernel"] for o in (ins.operands or [])
        if type(o).__name__ == "MemoryOperand" and isinstance(o.post_indexed, dict) and "value" not in o.post_indexed)
    if text != res["text"]:
        d = first_text_diff(text, res["text"])
        if c.get("opt") and totals_tie_only(text, res["text"], m, im):
            # the float column sum sits on a half-cent: `round(x, 2)` of the implementation's float sum and of the exact sum
            # of the same cells may be different neighbours (README: either neighbour is accepted at an exact rounding tie)
            st["totals_rounding_ties"] = st.get("totals_rounding_ties", 0) + 1
            return None
        return "report text differs at line %s: model %r impl %r" % (d["line"], d["model"], d["impl"])
    st["reports_equal"] += 1
    return None


def totals_tie_only(a, b, m, im):
    """the two report texts differ in ONE line only, the implementation's column sums differ from the model's only in columns
    whose exact sum is a rounding tie (`pipeline.diff_model_impl` has accepted them), and that line shows exactly these sums"""
    la, lb = (a or "").split("\n"), (b or "").split("\n")
    if len(la) != len(lb):
        return False
    diff = [i for i in range(len(la)) if la[i] != lb[i]]
    if len(diff) != 1:
        return False
    cols = [j for j, (x, y) in enumerate(zip(m["colsums"], im["colsums"])) if abs(float(x) - y) > 1e-9]
    if not cols:
        return False
    ta, tb = la[diff[0]], lb[diff[0]]
    na, nb = re.findall(r"\d+\.\d+", ta), re.findall(r"\d+\.\d+", tb)
    if len(na) != len(nb) or re.sub(r"\d+\.\d+", "#", ta).replace(" ", "") != re.sub(r"\d+\.\d+", "#", tb).replace(" ", ""):
        return False
    changed = [(x, y) for x, y in zip(na, nb) if x != y]
    return 0 < len(changed) <= len(cols) and all(abs(float(x) - float(y)) <= 0.01 + 1e-9 for x, y in changed)


def press_field(snap):
    return "|".join("%d:%s" % (n, ",".join(core.frac(v) for v in vec)) for n, vec in snap)


OPT_TOL = "1/1000000000"      # slack of the admissibility test on top of INC/2 per micro-op (the cells are float sums)


def judge_opt_case(ctx, c, reply, st, replay_info):
    """optimal scheduling: admissibility of the implementation's pressures as judged by the model (`Spec.checkFeasible` per
    instruction line of the kernel, slack INC/2 per micro-op): after the FIRST balancing pass a failure is a violation with a
    concrete input; after the second (the state the CLI prints) it is the known second-pass finding of C01 -- counted only"""
    if not reply.startswith("ok "):
        return
    extra = {}
    for tok in reply.split(" ")[1:]:
        k, _, v = tok.partition("=")
        if k in ("adm1", "adm2", "nuops"):
            extra[k] = v
    st["admissibility_judged"] = st.get("admissibility_judged", 0) + 1
    st["lines_judged"] = st.get("lines_judged", 0) + len([t for t in extra.get("nuops", "").split("|") if t])
    st["uops_judged"] = st.get("uops_judged", 0) + sum(int(t.split(":")[1]) for t in extra.get("nuops", "").split("|") if t)
    snaps = c["res"].get("snaps") or []
    if len(snaps) >= 2 and snaps[0] != snaps[1]:
        st["second_pass_moved"] = st.get("second_pass_moved", 0) + 1
    uniform = c["res"].get("pre")
    if uniform is not None and snaps and snaps[0] != uniform:
        st["balanced_nonuniform"] = st.get("balanced_nonuniform", 0) + 1

    def entries(v):
        out = []
        for t in ([] if v == "ok" else v.split("|")):
            ln, clause, lt1 = (t.split(":") + ["", "0"])[:3]
            out.append((int(ln), clause, lt1 == "1"))
        return out

    if entries(extra.get("adm2", "ok")):
        st["final_state_inadmissible"] = st.get("final_state_inadmissible", 0) + 1
        ctx.count("e2e_opt_final_state_inadmissible")
    bad = entries(extra.get("adm1", "ok"))
    if [b for b in bad if b[2]]:
        # FINDING (not raised here, reported in notes/EndToEnd.md): a load/store throughput multiplier < 1 scales the line's
        # pressure, but the balancer caps what it moves per micro-op and port by the UNSCALED share `cycles / len(ports)`
        # of `port_uops`: it moves cycles of other micro-ops to ports they cannot use.  No shipped model has a multiplier < 1.
        st["first_pass_inadmissible_multiplier_lt_1"] = st.get("first_pass_inadmissible_multiplier_lt_1", 0) + 1
        ctx.count("e2e_opt_first_pass_inadmissible_multiplier_lt_1")
    bad = [b for b in bad if not b[2]]
    if bad:
        st["first_pass_inadmissible"] = st.get("first_pass_inadmissible", 0) + 1
        line, clause, _ = bad[0]
        vec = dict(snaps[0]).get(line) if snaps else None
        txt = c["file"].split("\n")
        src = txt[line - 1].strip() if 0 < line <= len(txt) else ""
        what = ("optimal scheduling: after the first balancing pass the port pressure %s of line %d `%s` is not a feasible split of "
                "the line's micro-ops within INC/2 per micro-op (clause: %s)" % (vec, line, src, clause))
        ctx.violation(what, dict(replay_info, kind="e2e-opt", file=c["file"], lines_arg=c["lines_arg"], flag_deps=c["flag_deps"],
                                 ignore_unknown=c["ignore_unknown"], isa=c["isa"], line=line, clause=clause, pressure=vec),
                      key=None)


def variants_of(rng, body, isa="x86"):
    from harness.props import c11 as C

    vs = C.build_variants(rng, isa, body, shift=(rng.random() < 0.1))
    pick = [v for v in vs if v[0] in ("marked", "body-only")] + rng.sample([v for v in vs if v[0] not in ("marked", "body-only")], 2)
    if rng.random() < 0.15:
        pick.append(("lines-empty", vs[0][1], "%d" % (len(vs[0][1]) + 7), []))
    return pick


def run_cases(ctx, arch, ymodel, stlf, pidx, files, st, tag, isa="x86", opt=False, replay_info=None):
    """files: [(variant name, file text, --lines or None, flag_deps, ignore_unknown)]; `opt`: run the command line WITHOUT
    `--fixed` and evaluate `analyseWith` on the implementation's pressures (driver op `e2e.opt`)"""
    cfg = ISA_CFG[isa]
    work = os.path.join(ctx.env.work, "e2e")
    os.makedirs(work, exist_ok=True)
    cases, reqs = [], []
    for vname, text, spec, fd, iu in files:
        path = os.path.join(work, "e%d.s" % st["files"])
        st["files"] += 1
        with open(path, "w") as f:
            f.write(text)
        res = run_cli(arch, path, spec, fd, iu, fixed=not opt)
        if "text" in res:
            version, fname, archname, stamp = header_bits(res["text"])
        else:
            version, fname, archname, stamp = "", path, arch.upper(), ""
        mode = ("L", spec) if spec is not None else ("M", cfg["isa_arg"])
        case = {"variant": vname, "file": text, "lines_arg": spec, "flag_deps": fd, "ignore_unknown": iu, "res": res, "isa": isa,
                "opt": opt}
        args = [esc(ymodel), esc(stlf), esc(pidx), esc(mode[0]), esc(mode[1]), esc("1" if fd else "0"),
                esc("1" if iu else "0"), esc(version), esc(fname), esc(archname), esc(stamp), esc(text)]
        if opt:
            snaps = res.get("snaps") or []
            if res.get("balancer_raised"):
                # the balancer itself raised: pass 1 -> a failure of the scheduler on a concrete input; pass 2 -> the known
                # second-pass finding of C01 (TypeError / IndexError in the state after the second call), counted only
                st["runs"] += 1
                if res["balancer_raised"] == 1:
                    ctx.violation("optimal scheduling: the first balancing pass raised %s" % res.get("error"),
                                  dict(replay_info or {}, kind="e2e-opt", file=text, lines_arg=spec, flag_deps=fd, ignore_unknown=iu,
                                       isa=isa, exception=res.get("exc")), key=None)
                    st["first_pass_raised"] = st.get("first_pass_raised", 0) + 1
                else:
                    st["second_pass_raised"] = st.get("second_pass_raised", 0) + 1
                    ctx.count("e2e_opt_second_pass_raised")
                continue
            p1 = press_field(snaps[0]) if len(snaps) >= 1 else ""
            p2 = press_field(snaps[1]) if len(snaps) >= 2 else p1
            reqs.append(" ".join(["e2e.opt", esc(cfg["isa_arg"])] + args + [esc(p1), esc(p2), esc(OPT_TOL)]))
        else:
            reqs.append(" ".join([cfg["op"]] + args))
        cases.append(case)
    replies = ctx.driver.ask(reqs) if reqs else []
    for c, rep in zip(cases, replies):
        st["runs"] += 1
        try:
            d = compare_case(ctx, c, rep, st)
            if opt and not d:
                judge_opt_case(ctx, c, rep, st, replay_info or {})
        except Exception as e:  # noqa
            d = "comparison failed: %s: %s (reply %s)" % (type(e).__name__, e, rep[:80])
        if d:
            st["disagreements"] += 1
            if st["disagreements"] <= 4:
                ctx.correspondence_break("e2e-opt" if opt else "e2e",
                                         {"where": tag, "isa": isa, "variant": c["variant"], "lines_arg": c["lines_arg"],
                                          "flag_deps": c["flag_deps"], "ignore_unknown": c["ignore_unknown"],
                                          "file": c["file"][:1500], "difference": d})


def _mnemonics(parser, lines, into):
    for l in lines:
        try:
            f = parser.parse_line(l, 1) if l.strip() else None
            if f is not None and f.mnemonic:
                into.add(f.mnemonic)
        except Exception:  # noqa
            pass


def run_e2e_correspondence(ctx, volume, shipped=("zen2", "spr"), shipped_volume=None, a64_volume=None, a64_shipped=("tx2", "a64fx"),
                           a64_shipped_volume=None, opt=False):
    """x86: `volume` synthetic models x 2-3 kernels x 4-5 variants, and `shipped_volume` (default: `volume`) kernels on each of
    the shipped models; AArch64: `a64_volume` (default: `volume`) synthetic models and `a64_shipped_volume` (default:
    `shipped_volume`) kernels on each of `a64_shipped`.
    `opt`: the DEFAULT (optimal) scheduling path -- the command line runs without `--fixed`, the model evaluates
    `analyseWith` on the implementation's pressures after the two balancing passes (compared as under `--fixed`: everything
    but the pressure cells is the model's own) and judges the pressures after the first pass admissible or not."""
    import warnings

    warnings.filterwarnings("ignore")
    from osaca.parser import ParserAArch64, ParserX86ATT
    from osaca.semantics import MachineModel

    keys = ["files", "runs", "compared", "disagreements", "impl_errors", "errors_agreed", "edges", "cycles", "lines",
            "unknown_lines", "memory_lines", "reports_equal"]
    if opt:
        keys += ["admissibility_judged", "lines_judged", "uops_judged", "balanced_nonuniform", "second_pass_moved",
                 "first_pass_inadmissible", "first_pass_inadmissible_multiplier_lt_1", "final_state_inadmissible",
                 "first_pass_raised", "second_pass_raised", "totals_rounding_ties"]
    total = {k: 0 for k in keys}
    if shipped_volume is None:
        shipped_volume = volume
    plan = [("x86", ParserX86ATT(), volume, shipped, shipped_volume),
            ("aarch64", ParserAArch64(), volume if a64_volume is None else a64_volume, a64_shipped,
             shipped_volume if a64_shipped_volume is None else a64_shipped_volume)]
    for isa, parser, vol, ship, svol in plan:
        st = {k: 0 for k in keys}
        st["files"] = total["files"]
        x86 = isa == "x86"
        syn_arch = ISA_CFG[isa]["syn_arch"]
        # ---- synthetic models
        syn_path = os.path.join(ctx.env.data, syn_arch + ".yml")
        saved = open(syn_path, "rb").read() if os.path.exists(syn_path) else None
        try:
            for mi in range(vol):
                rng = random.Random(ctx.rng.randrange(1 << 62))
                model = synthetic_model(rng) if x86 else synthetic_model_a64(rng)
                try:
                    install_model(ctx, model, syn_arch)
                except Exception as e:  # noqa
                    raise core.InfraError("cannot install the synthetic model: %s" % e)
                ymodel = pressure.yenc({k: model[k] for k in MODEL_KEYS if k in model})
                stlf = core.frac(float(model.get("store_to_load_forward_latency", 0.0)))
                pidx = core.frac(float(model.get("p_index_latency", 1.0)))
                files = []
                for _ in range(rng.choice([2, 3])):
                    body = body_for(rng, model, parser) if x86 else body_for_a64(rng, model, parser)
                    if not any(b.strip() for b in body):
                        continue
                    for vname, lines, spec, _idx in variants_of(rng, body, isa):
                        text = "\n".join(lines) + ("\n" if rng.random() < 0.8 else "")
                        files.append((vname, text, spec, rng.random() < 0.3, rng.random() < 0.5))
                run_cases(ctx, syn_arch, ymodel, stlf, pidx, files, st, "synthetic %s model %d" % (isa, mi), isa, opt=opt,
                          replay_info={"synthetic": True, "arch": syn_arch, "model": model})
                ctx.count(("e2e_opt_" if opt else "e2e_") + ("synthetic_models" if x86 else "a64_synthetic_models"))
        finally:
            # the private copy of the arch file the synthetic models replaced
            if vol:
                MachineModel._runtime_cache.pop(syn_path, None)
                if saved is not None:
                    with open(syn_path, "wb") as f:
                        f.write(saved)
                elif os.path.exists(syn_path):
                    os.remove(syn_path)
        # ---- shipped models restricted to the reachable entries
        for arch in ship:
            if not os.path.exists(os.path.join(ctx.env.data, arch + ".yml")):
                continue
            raw = pressure.load_raw(arch)
            mm = MachineModel(arch=arch)
            stlf, pidx = dgenc.model_params(mm)
            for ki in range(svol):
                rng = random.Random(ctx.rng.randrange(1 << 62))
                if x86:
                    body = [b for b in dgenc.gen_x86_kernel(rng, rng.randint(3, 10), mem=True, npool=rng.choice([2, 3, 4]))
                            if not re.search(r"[A-Za-z_.][\w.]*\(", b)]
                    unknown = "zzunknown %rax, %rcx"
                else:
                    gen = rng.choice(["dgenc", "dgenc", "memdep", "chain", "scaledep"])
                    if gen == "dgenc":
                        body = dgenc.gen_a64_kernel(rng, rng.randint(3, 10), mem=True, npool=rng.choice([2, 3, 4]))
                    elif gen == "memdep":
                        body = dgenc.gen_memdep_a64(rng)[0]
                    elif gen == "scaledep":
                        body = gen_scaledep_a64(rng)
                    else:
                        a = rng.randrange(0, 6)
                        body = A64_CHAIN[a:a + rng.randrange(3, 9)]
                    body = [b for b in body if glue_domain_a64(parser, b)]
                    unknown = "zzunknown x0, x3"
                if rng.random() < 0.5:
                    body.insert(rng.randrange(len(body) + 1), unknown)
                if not any(b.strip() for b in body):
                    continue
                mns = set()
                _mnemonics(parser, body, mns)
                files = []
                for vname, lines, spec, _idx in variants_of(rng, body, isa)[:3]:
                    _mnemonics(parser, lines, mns)
                    files.append((vname, "\n".join(lines) + "\n", spec, rng.random() < 0.3, rng.random() < 0.5))
                small = restrict_model(raw, mns, isa)
                if has_alternatives(small):
                    ctx.count("e2e_skipped_port_alternatives")
                    continue
                ymodel = pressure.yenc(small)
                run_cases(ctx, arch, ymodel, stlf, pidx, files, st,
                          "shipped model %s (restricted to %d forms)" % (arch, len(small["instruction_forms"])), isa, opt=opt,
                          replay_info={"synthetic": False, "arch": arch})
            ctx.count(("e2e_opt_" if opt else "e2e_") + ("shipped_models" if x86 else "a64_shipped_models"))
        pre = ("e2e_opt_" if opt else "e2e_") + ("" if x86 else "a64_")
        st["files"] -= total["files"]
        for k, v in st.items():
            ctx.count(pre + k, v)
            if k in total:
                total[k] += v
        ctx.cov[("e2e_opt" if opt else "e2e") + ("" if x86 else "_a64")] = dict(st)
        ctx.log("e2e %s%s (file text -> report inside the model): %d runs, %d analyses compared (%d lines, %d memory-composed or load/store, "
                "%d unknown, %d post-indexed by a register, %d edges, %d cycles), %d reports byte-identical, %d agreed error outcomes, %d disagreements"
                % (isa, " optimal scheduling" if opt else "", st["runs"], st["compared"], st["lines"], st["memory_lines"],
                   st["unknown_lines"], st.get("postreg_lines", 0), st["edges"], st["cycles"], st["reports_equal"], st["errors_agreed"],
                   st["disagreements"]))
        if opt:
            ctx.log("    pressures: %d runs judged (%d instruction lines, %d micro-ops), balanced away from uniform in %d, moved again by the "
                    "second pass in %d; first pass inadmissible %d (+ %d on lines with a throughput multiplier < 1: finding, counted), "
                    "raised %d; final state inadmissible %d, second pass raised %d (known C01 finding, counted); totals on a rounding tie %d"
                    % (st["admissibility_judged"], st["lines_judged"], st["uops_judged"], st["balanced_nonuniform"],
                       st["second_pass_moved"], st["first_pass_inadmissible"], st["first_pass_inadmissible_multiplier_lt_1"],
                       st["first_pass_raised"], st["final_state_inadmissible"], st["second_pass_raised"], st["totals_rounding_ties"]))
    return total
