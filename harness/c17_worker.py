"""Worker process of the C17 check: one OSACA process whose loads the harness observes.

Started by harness/props/c17.py with HOME and PYTHONPATH pointing into a private world.  Reads one
JSON command per line on stdin, answers one JSON line on the original stdout (stdout of the OSACA code
itself goes to stderr).  Nothing in the OSACA source is changed; the only in-process patches are test
instrumentation of the *standard library* as seen by this process:

  * `nocache`   (reference runs only): `MachineModel._get_cached` / `_write_in_cache` disabled, so the
                result is what the loader makes of the file with no cache code involved at all;
  * `crash`     `pickle.dump` writes a prefix of the pickle and the process dies (`os._exit`), i.e. a
                kill -9 inside the cache write at a chosen offset class;
  * `slow`      `pickle.dump` writes in flushed chunks with pauses, to widen the window of a real race;
  * `ro_dirs`   (only where `chattr +i` is unavailable) `os.access(dir, W_OK)` is False for these.
"""
import hashlib
import io
import json
import os
import pickle
import re
import sys
import time

OUT = os.fdopen(os.dup(1), "w")
os.dup2(2, 1)
sys.stdout = sys.stderr

_real_dump = pickle.dump
_real_access = os.access
RO_DIRS = []


def reply(obj):
    OUT.write(json.dumps(obj) + "\n")
    OUT.flush()


def _access(path, mode, **kw):
    if mode & os.W_OK and os.path.realpath(str(path)) in RO_DIRS:
        return False
    return _real_access(path, mode, **kw)


def normalise(report):
    out = []
    for line in report.split("\n"):
        if line.startswith("Timestamp:"):
            continue
        if line.startswith("Analyzed file:"):
            line = "Analyzed file:      " + os.path.basename(line.split(":", 1)[1].strip())
        out.append(line.rstrip())
    return "\n".join(out)


def analyse(arch, kernels):
    import osaca.osaca as O

    texts = []
    for k in kernels:
        parser = O.create_parser()
        args = parser.parse_args(["--arch", arch, k])
        try:
            O.check_arguments(args, parser)
            buf = io.StringIO()
            O.run(args, output_file=buf)
            texts.append(normalise(buf.getvalue()))
        finally:
            args.file.close()
    return "\n=====\n".join(texts)


HEADER_KEYS = ["arch_code", "isa", "micro_architecture", "load_latency", "ports", "hidden_loads",
               "store_to_load_forward_latency", "load_throughput_multiplier", "store_throughput_multiplier"]


def plain(x):
    if isinstance(x, dict):
        return {str(k): plain(v) for k, v in sorted(x.items(), key=lambda kv: str(kv[0]))}
    if isinstance(x, (list, tuple)):
        return [plain(v) for v in x]
    if isinstance(x, (int, float, str, bool)) or x is None:
        return x
    return str(x)


def lazy_digest(arch):
    from osaca.semantics.hw_model import MachineModel

    mm = MachineModel(arch=arch, lazy=True)
    d = {k: plain(mm._data.get(k)) for k in HEADER_KEYS}
    d["n_forms"] = len(mm._data.get("instruction_forms", []))
    return json.dumps(d, sort_keys=True)


def main():
    for line in sys.stdin:
        line = line.strip()
        if not line:
            continue
        cmd = json.loads(line)
        op = cmd["op"]
        try:
            if "ro_dirs" in cmd:
                RO_DIRS[:] = [os.path.realpath(d) for d in cmd["ro_dirs"]]
                os.access = _access if RO_DIRS else _real_access
            if op == "ping":
                reply({"ok": True})
            elif op == "nocache":
                from osaca.semantics.hw_model import MachineModel

                MachineModel._get_cached = lambda self, filepath: False
                MachineModel._write_in_cache = lambda self, filepath: None
                reply({"ok": True})
            elif op == "slow":
                chunks, pause = cmd["chunks"], cmd["pause"]

                def slow_dump(obj, f, *a, **k):
                    data = pickle.dumps(obj, *a, **k)
                    n = max(1, len(data) // chunks)
                    for i in range(0, len(data), n):
                        f.write(data[i:i + n])
                        f.flush()
                        time.sleep(pause)

                pickle.dump = slow_dump
                reply({"ok": True})
            elif op == "analyse":
                if cmd.get("delay"):
                    time.sleep(cmd["delay"])
                t = time.time()
                rep = analyse(cmd["arch"], cmd["kernels"])
                reply({"ok": True, "report": rep, "t": time.time() - t})
            elif op == "lazy":
                reply({"ok": True, "report": lazy_digest(cmd["arch"])})
            elif op == "mutate":
                # what `--import` or a what-if study of a library user does: change entries of ONE MachineModel
                # instance through the public API.  The model file is untouched, so later loads must not see it.
                import osaca.osaca as O
                from osaca.semantics.hw_model import MachineModel

                mm = MachineModel(arch=cmd["arch"])
                parser = O.get_asm_parser(cmd["arch"])
                n = 0
                for k in cmd["kernels"]:
                    with open(k) as f:
                        forms = parser.parse_file(f.read())
                    for form in forms:
                        if form.mnemonic is None:
                            continue
                        e = mm.get_instruction(form.mnemonic, form.operands)
                        if e is None:
                            continue
                        mm.set_instruction(form.mnemonic, form.operands, latency=float(e.latency or 0) + 20.0,
                                           port_pressure=e.port_pressure, throughput=e.throughput, uops=e.uops)
                        n += 1
                mm.add_port("verif-extra-port")
                reply({"ok": True, "mutated": n})
            elif op == "refpickle":
                # reference runs: the data a cache file for this model must hold
                from osaca.semantics.hw_model import MachineModel

                mm = MachineModel(path_to_yaml=cmd["path"])
                with open(cmd["dst"], "wb") as f:
                    _real_dump(mm._data, f)
                reply({"ok": True, "version": mm._data.get("internal_version"),
                       "class_version": MachineModel.INTERNAL_VERSION})
            elif op == "foreign":
                # a well-formed cache file of another format version
                with open(cmd["src"], "rb") as f:
                    data = pickle.load(f)
                data["internal_version"] = cmd["ver"]
                with open(cmd["dst"], "wb") as f:
                    _real_dump(data, f)
                reply({"ok": True})
            elif op == "crashload":
                point = cmd["point"]

                def crash_dump(obj, f, *a, **k):
                    data = pickle.dumps(obj, *a, **k)
                    fe = len(data) // 3
                    if len(data) > 11 and data[0] == 0x80 and data[2] == 0x95:
                        fe = min(len(data) - 1, 11 + int.from_bytes(data[3:11], "little"))
                    cut = {0: 0, 1: min(len(data), 3), 2: len(data) // 2, 4: min(len(data), 2), 5: fe}.get(point, len(data) - 1)
                    f.write(data[:cut])
                    f.flush()
                    reply({"ok": True, "crashed": True, "file": getattr(f, "name", None), "cut": cut,
                           "len": len(data)})
                    os._exit(137)

                pickle.dump = crash_dump
                from osaca.semantics.hw_model import MachineModel

                MachineModel(arch=cmd["arch"])
                reply({"ok": True, "crashed": False})
            elif op == "loadpath":
                # name correspondence: full load of an arbitrary file, to see which cache file appears
                from osaca.semantics.hw_model import MachineModel

                MachineModel(path_to_yaml=cmd["path"])
                reply({"ok": True})
            elif op == "exit":
                reply({"ok": True})
                return
            else:
                reply({"ok": False, "exc": "bad-op"})
        except BaseException as e:  # noqa: the exception class is the observation
            if isinstance(e, (KeyboardInterrupt, SystemExit)):
                raise
            import traceback

            tb = traceback.format_exc()
            reply({"ok": False, "exc": type(e).__name__, "msg": str(e)[:200], "tb": tb[-1200:]})


if __name__ == "__main__":
    main()
