"""Generator, renderer and expectation of the C10 oracle (AArch64 parser round trip).

An instruction AST is a mnemonic, 0-5 operand *slots* in valid AArch64 order (prefetch operation
first, memory reference last) and an optional trailing comment.  `pieces(op)` renders an operand into
text pieces with the kind of gap allowed in front of each piece (0 = attached, 1 = any white space
incl. none, 2 = at least one blank); `layout` fills the gaps with random blanks/tabs.
`expect_line(ast)` is the canonical token list the parser has to deliver for the line *as written*
(harness/a64canon.py format) -- computed from the AST alone, never from the model or the parser.

The Lean specification `Spec/RenderA64.lean` defines the same renderer; `ast_wire` serialises an AST
for the driver op `a64render`, so that the two renderers are compared on every generated line.
"""
from harness.core import esc

NONE = "~"
CONDS = ["eq", "ne", "cs", "hs", "cc", "lo", "mi", "pl", "vs", "vc", "hi", "ls", "ge", "lt", "gt", "le", "al"]
# the shift / extend operators of the grammar and their leading words (`mul` of `mul vl`)
SHIFT_OPS = ["lsl", "lsr", "asr", "ror", "sxtw", "sxtx", "uxtw", "uxtb", "mul vl"]
SHIFT_WORDS = ["lsl", "lsr", "asr", "ror", "sxtw", "uxtw", "uxtb", "sxtx", "mul"]
PRF = (["pld", "pst"], ["l1", "l2", "l3"], ["keep", "strm"])
SCALAR = "xwbhsdq"
SHAPES = "bhsdq"
LANES = ["1", "2", "4", "8", "16"]
MNEMONICS = ["ldr", "str", "ldp", "stp", "add", "sub", "mov", "fmla", "fadd", "b.ne", "b.eq", "cbz", "csel",
             "ccmp", "ld1", "st1", "prfm", "fmov", "movk", "adrp", "whilelo", "ptrue", "ld1d", "mov.d",
             "vcvt.F32.S32", "ret", "nop", "bl", "b", "cset", "dup", "ins", "fcmla", "madd"]
EXTENDS = ["lsl", "sxtw", "uxtw", "sxtx"]   # scaling operators of a memory index


def t(x):
    return NONE if x is None else esc(str(x))


# --------------------------------------------------------------------------- random ASTs
def _n(rng, big=False):
    if big and rng.random() < 0.1:
        return rng.choice([rng.randrange(32, 1000), rng.randrange(10 ** 3, 10 ** 9)])
    return rng.randrange(0, 32)


def g_scalar(rng, prefixes=SCALAR):
    return {"k": "sc", "p": rng.choice(prefixes), "n": _n(rng, True), "up": rng.random() < 0.15}


def g_sp(rng):
    return {"k": "sp", "t": rng.choice(["sp", "sp", "wsp", "SP", "WSP"])}


def g_zr(rng):
    return {"k": "zr", "t": rng.choice(["xzr", "wzr", "XZR", "WZR"])}


def g_vec(rng, allow_idx=True, p=None):
    p = p or rng.choice("vz")
    r = rng.random()
    lanes = shape = None
    if r < 0.85:
        shape = rng.choice(SHAPES)
        if p == "v" and rng.random() < 0.7:
            lanes = rng.choice(LANES)
    idx = None
    if allow_idx and shape is not None and rng.random() < 0.3:
        idx = rng.randrange(0, 16)
    return {"k": "vec", "p": p, "n": _n(rng, True), "lanes": lanes, "shape": shape, "idx": idx,
            "up": rng.random() < 0.15}


def g_pred(rng):
    r = rng.random()
    tail = None
    if r < 0.4:
        tail = ("p", rng.choice("zmZM"))
    elif r < 0.8:
        tail = ("s", None, rng.choice(SHAPES))
    return {"k": "pred", "n": rng.randrange(0, 16), "tail": tail, "up": rng.random() < 0.15}


def g_list(rng):
    if rng.random() < 0.5:
        first = g_vec(rng, allow_idx=False)
        first["n"] = rng.randrange(0, 28)
        n = rng.randrange(1, 5)
        elems = []
        for i in range(n):
            e = dict(first)
            e["n"] = (first["n"] + i) % 32
            elems.append(e)
    else:
        elems = [g_scalar(rng, "xwdq") if rng.random() < 0.3 else g_vec(rng, allow_idx=False)
                 for _ in range(rng.randrange(1, 5))]
    idx = rng.randrange(0, 16) if rng.random() < 0.3 else None
    return {"k": "list", "elems": elems, "idx": idx}


def g_range(rng):
    first = g_vec(rng, allow_idx=False) if rng.random() < 0.85 else g_scalar(rng, "xwdq")
    a = rng.randrange(0, 30)
    r = rng.random()
    if r < 0.1:
        a = rng.randrange(0, 5000)
        b = a + rng.randrange(0, 40)
    elif r < 0.2:
        b = a
    else:
        b = a + rng.randrange(1, 8)
    first["n"] = a
    idx = rng.randrange(0, 16) if rng.random() < 0.3 else None
    return {"k": "range", "first": first, "b": b, "idx": idx}


def g_int(rng, signed=True):
    r = rng.random()
    if r < 0.5:
        v = rng.randrange(0, 4096)
    elif r < 0.7:
        v = rng.randrange(0, 2 ** 16)
    elif r < 0.85:
        v = rng.randrange(0, 2 ** 64)
    else:
        v = rng.choice([0, 1, 2 ** 32, 2 ** 64 - 1, 2 ** 63, 10 ** 30])
    neg = signed and rng.random() < 0.3
    return {"k": "imm", "v": -v if neg else v, "neg0": neg and v == 0, "hex": rng.random() < 0.4,
            "hash": rng.random() < 0.7, "hexup": rng.random() < 0.3}


def g_flt(rng):
    digits = lambda lo, hi: "".join(rng.choice("0123456789") for _ in range(rng.randrange(lo, hi)))
    exp = None
    if rng.random() < 0.5:
        exp = (rng.choice("+-"), digits(1, 4), rng.choice("eE"))
    return {"k": "flt", "neg": rng.random() < 0.3, "ip": digits(1, 4), "fp": digits(1, 6), "exp": exp,
            "f": rng.choice([None, None, "f", "F"]), "hash": rng.random() < 0.8}


def g_shimm(rng):
    return {"k": "shimm", "v": rng.randrange(0, 4096), "hex": rng.random() < 0.3, "hash": rng.random() < 0.8,
            "opup": rng.random() < 0.2, "amt": rng.choice([0, 12, 16, 32, 48, rng.randrange(0, 64), rng.randrange(0, 200)]),
            "amthash": rng.random() < 0.8}


def g_cond(rng):
    c = rng.choice(CONDS)
    v = rng.random()
    if v < 0.3:
        c = c.upper()
    elif v < 0.4:
        c = c[0].upper() + c[1]
    return {"k": "cond", "c": c}


_ID_FIRST = "abcdefghijklmnopqrstuvwxyzABCDEFGHIJKLMNOPQRSTUVWXYZ_."
_ID_REST = _ID_FIRST + "0123456789"


def ident_ok(name):
    """names the property's domain admits as label operands: not spelled like a register, an alias,
    a condition code or a prefetch operation, and not a shift/extend operator itself (`lsl` behind a
    register is that register's shift).  A name that merely *begins* with a shift operator (`lsl_loop`,
    `ror.tab`, `sxtw1`, `mul_vl`) is a label like any other."""
    import re
    low = name.lower()
    if low in CONDS:
        return False
    if re.match(r"^[xwbhsdqvzp][0-9]", low):
        return False
    if low[:2] in ("sp", "zr") or low[1:3] in ("sp", "zr"):
        return False
    if low in SHIFT_OPS:
        return False
    if re.match(r"^(pld|pst)l[123](keep|strm)", low):
        return False
    return True


_SHIFT_TAILS = ["_x", "x", ".tab", "1", "_vl", "_loop", "_", ".", "2x", "L", "lsl"]


def g_shift_name(rng):
    """a label name that begins with a shift/extend operator word (either case): `lsl_x`, `LSLx`, `ror.tab`,
    `sxtw1`, `mul_vl`, `mul`, ... -- behind a register a grammar without word boundary reads the
    operator and drops the rest (finding a64-shiftop-prefix-label)"""
    w = rng.choice(SHIFT_WORDS)
    v = rng.random()
    if v < 0.2:
        w = w.upper()
    elif v < 0.3:
        w = w[0].upper() + w[1:]
    r = rng.random()
    if r < 0.7:
        tail = rng.choice(_SHIFT_TAILS)
    elif r < 0.75 and w.lower() == "mul":
        tail = ""
    else:
        tail = "".join(rng.choice(_ID_REST) for _ in range(rng.randrange(1, 6)))
    return w + tail


# labels that BEGIN like a register name or an sp/zr alias but are ordinary identifiers (outside the round-trip theorem's domain
# `IdentNameOk`, inside the property): judged by the oracle and the model-vs-parser correspondence
REGLIKE_NAMES = ["v0_table", "x29_save", "spin_loop", "special", "split_k", "d1_tmp", "p0_mask", "w8count", "q2.tab", "zr_next",
                 "xzr_fill", "b12_", "h3x", "s9.L", "z31loop", "wsp_adj"]


def g_name(rng):
    if rng.random() < 0.06:
        return rng.choice(REGLIKE_NAMES)
    while True:
        r = rng.random()
        if r < 0.12:
            name = g_shift_name(rng)
        elif r < 0.46:
            name = rng.choice([".L", ".LBB", "..B", "loop", "main", "_foo", "kernel.", "a"]) + \
                "".join(rng.choice("0123456789_.") for _ in range(rng.randrange(0, 4)))
        else:
            name = rng.choice(_ID_FIRST) + "".join(rng.choice(_ID_REST) for _ in range(rng.randrange(0, 9)))
        if ident_ok(name):
            return name


def g_ident(rng):
    reloc = off = None
    if rng.random() < 0.15:
        reloc = rng.choice(["lo12", "got", "got_lo12", "abs_g0"])
    if rng.random() < 0.15:
        off = rng.randrange(0, 4096)
    return {"k": "id", "name": g_name(rng), "reloc": reloc, "off": off,
            "offhex": rng.random() < 0.3, "hash": reloc is not None and rng.random() < 0.5}


def shift_name_sweep():
    """deterministic: every shift/extend operator word x a few tails as a label operand directly behind
    each kind of operand that has an optional shift tail or precedes `, shift_op` in the grammar (register
    kinds, immediate, identifier), in the second and in a later slot, lower and upper case"""
    def ident(name):
        return {"k": "id", "name": name, "reloc": None, "off": None, "offhex": False, "hash": False}
    before = [
        {"k": "sc", "p": "x", "n": 1, "up": False},
        {"k": "sc", "p": "w", "n": 30, "up": True},
        {"k": "sp", "t": "sp"},
        {"k": "zr", "t": "XZR"},
        {"k": "vec", "p": "v", "n": 3, "lanes": "4", "shape": "s", "idx": None, "up": False},
        {"k": "imm", "v": 16, "neg0": False, "hex": False, "hash": True, "hexup": False},
        {"k": "imm", "v": 255, "neg0": False, "hex": True, "hash": False, "hexup": False},
        ident(".L4"),
    ]
    out = []
    for w in SHIFT_WORDS:
        for tail in ("_loop", "x", ".tab", "1", "_vl"):
            for up in (False, True):
                name = (w.upper() if up else w) + tail
                if not ident_ok(name):
                    continue
                for bi, b in enumerate(before):
                    if up and bi % 2:
                        continue
                    ops = [dict(b), ident(name)] if b["k"] != "id" and b["k"] != "imm" else \
                        [{"k": "sc", "p": "x", "n": 0, "up": False}, dict(b), ident(name)]
                    out.append({"mn": "cbz" if len(ops) == 2 else "op", "ops": ops, "comment": None})
        out.append({"mn": "adr", "ops": [{"k": "sc", "p": "x", "n": 2, "up": False}, ident(w + "_table"),
                                          {"k": "sc", "p": "x", "n": 3, "up": False}, ident(w.upper() + "9")], "comment": ["c"]})
    out.append({"mn": "b", "ops": [{"k": "sc", "p": "x", "n": 2, "up": False}, ident("mul")], "comment": ["vl"]})
    return out


def shift_named(ast):
    """number of label operands of the line whose name begins with a shift/extend operator word and that
    stand directly behind a register (where the register's optional shift tail is tried on them)"""
    n = 0
    ops = ast["ops"]
    for a, b in zip(ops, ops[1:]):
        if b["k"] == "id" and not b["hash"] and b["reloc"] is None and a["k"] in ("sc", "sp", "zr", "vec", "pred", "list", "range") \
                and any(b["name"].lower().startswith(w) for w in SHIFT_WORDS):
            n += 1
    return n


def g_prf(rng):
    return {"k": "prf", "t": rng.choice(PRF[0]), "g": rng.choice(PRF[1]), "p": rng.choice(PRF[2]),
            "up": rng.random() < 0.4}


def g_mem(rng, extends=EXTENDS):
    base = g_sp(rng) if rng.random() < 0.25 else g_scalar(rng, "x")
    m = {"k": "mem", "base": base, "off": None, "index": None, "pre": False, "post": None}
    r = rng.random()
    if r < 0.35:
        m["off"] = g_int(rng)
    elif r < 0.75:
        reg = g_zr(rng) if rng.random() < 0.1 else g_scalar(rng, "xw")
        shift = None
        if rng.random() < 0.7:
            op = rng.choice(extends)
            amt = rng.choice([0, 1, 2, 3, 4, rng.randrange(0, 8), rng.randrange(0, 130)])
            if op != "lsl" and rng.random() < 0.3:
                amt = None
            shift = {"op": op, "up": rng.random() < 0.2, "amt": amt, "hash": rng.random() < 0.8}
        m["index"] = {"reg": reg, "shift": shift}
    elif r < 0.8:
        m["off"] = g_ident(rng)
    r = rng.random()
    if r < 0.2:
        m["pre"] = True
    elif r < 0.4:
        m["post"] = g_int(rng)
    return m


def g_reg(rng):
    r = rng.random()
    if r < 0.4:
        return g_scalar(rng)
    if r < 0.47:
        return g_sp(rng)
    if r < 0.54:
        return g_zr(rng)
    if r < 0.82:
        return g_vec(rng)
    return g_pred(rng)


def g_middle(rng):
    r = rng.random()
    if r < 0.5:
        return g_reg(rng)
    if r < 0.62:
        return g_int(rng)
    if r < 0.68:
        return g_flt(rng)
    if r < 0.74:
        return g_shimm(rng)
    if r < 0.82:
        return g_cond(rng)
    if r < 0.90:
        return g_ident(rng)
    if r < 0.95:
        return g_list(rng)
    return g_range(rng)


def g_comment(rng):
    r = rng.random()
    if r < 0.55:
        return None
    if r < 0.6:
        return []
    words = []
    for _ in range(rng.randrange(1, 5)):
        words.append("".join(chr(rng.randrange(33, 127)) for _ in range(rng.randrange(1, 8))))
    return words


def g_instr(rng, extends=EXTENDS):
    mn = rng.choice(MNEMONICS) if rng.random() < 0.8 else \
        rng.choice("abcdefghijklmnopqrstuvwxyz") + "".join(rng.choice("abcdefghijklmnopqrstuvwxyz0123456789.")
                                                              for _ in range(rng.randrange(0, 7)))
    nslots = rng.choice([0, 1, 2, 2, 3, 3, 3, 4, 5])
    ops = []
    if nslots:
        has_mem = rng.random() < 0.45
        has_prf = has_mem and rng.random() < 0.1
        middle = nslots - (1 if has_mem else 0) - (1 if has_prf else 0)
        if has_prf:
            ops.append(g_prf(rng))
        for i in range(max(0, middle)):
            o = g_middle(rng)
            if o["k"] == "cond" and not ops:
                o = g_reg(rng)          # the first slot has no condition alternative
            ops.append(o)
        if has_mem:
            ops.append(g_mem(rng, extends))
    return {"mn": mn, "ops": ops[:5], "comment": g_comment(rng)}


# --------------------------------------------------------------------------- rendering
def _case(s, up):
    return s.upper() if up else s


def _int_text(o):
    v = o["v"]
    neg = v < 0 or o.get("neg0")
    a = abs(v)
    if o["hex"]:
        h = "%x" % a
        body = "0x" + (h.upper() if o.get("hexup") else h)
    else:
        body = str(a)
    return ("#" if o["hash"] else "") + ("-" if neg else "") + body


def _elem_text(e):
    if e["k"] == "sc":
        return _case(e["p"], e["up"]) + str(e["n"])
    s = _case(e["p"], e["up"]) + str(e["n"])
    if e["shape"] is not None:
        s += "." + (e["lanes"] or "") + _case(e["shape"], e["up"])
    if e.get("idx") is not None:
        s += "[%d]" % e["idx"]
    return s


def reg_text(r):
    k = r["k"]
    if k in ("sc", "vec"):
        return _elem_text(r)
    if k in ("sp", "zr"):
        return r["t"]
    if k == "pred":
        s = _case("p", r["up"]) + str(r["n"])
        tl = r["tail"]
        if tl is not None:
            if tl[0] == "p":
                s += "/" + tl[1]
            else:
                s += "." + (tl[1] or "") + _case(tl[2], r["up"])
        return s
    raise ValueError(k)


def pieces(o):
    """[(text, gap)] -- gap of the first piece is decided by the caller"""
    k = o["k"]
    if k in ("sc", "vec", "sp", "zr", "pred"):
        return [(reg_text(o), 1)]
    if k == "list":
        out = [("{", 1)]
        for i, e in enumerate(o["elems"]):
            if i:
                out.append((",", 1))
            out.append((_elem_text(e), 1))
        out.append(("}", 1))
        if o["idx"] is not None:
            out += [("[", 1), (str(o["idx"]), 1), ("]", 1)]
        return out
    if k == "range":
        last = dict(o["first"])
        last["n"] = o["b"]
        out = [("{", 1), (_elem_text(o["first"]), 1), ("-", 1), (_elem_text(last), 1), ("}", 1)]
        if o["idx"] is not None:
            out += [("[", 1), (str(o["idx"]), 1), ("]", 1)]
        return out
    if k == "imm":
        return [(_int_text(o), 1)]
    if k == "flt":
        s = ("#" if o["hash"] else "") + ("-" if o["neg"] else "") + o["ip"] + "." + o["fp"]
        if o["exp"]:
            s += o["exp"][2] + o["exp"][0] + o["exp"][1]
        if o["f"]:
            s += o["f"]
        return [(s, 1)]
    if k == "shimm":
        base = {"v": o["v"], "hex": o["hex"], "hash": o["hash"]}
        return [(_int_text(base), 1), (",", 1), (_case("lsl", o["opup"]), 1),
                (("#" if o["amthash"] else "") + str(o["amt"]), 1 if o["amthash"] else 2)]
    if k == "cond":
        return [(o["c"], 1)]
    if k == "id":
        s = ("#" if o["hash"] else "")
        if o["reloc"]:
            s += ":" + o["reloc"] + ":"
        s += o["name"]
        if o["off"] is not None:
            s += "+" + (("0x%x" % o["off"]) if o["offhex"] else str(o["off"]))
        return [(s, 1)]
    if k == "prf":
        return [(_case(o["t"] + o["g"] + o["p"], o["up"]), 1)]
    if k == "mem":
        out = [("[", 1), (reg_text(o["base"]), 1)]
        if o["off"] is not None:
            out.append((",", 1))
            out += pieces(o["off"])
        if o["index"] is not None:
            out.append((",", 1))
            out.append((reg_text(o["index"]["reg"]), 1))
            sh = o["index"]["shift"]
            if sh is not None:
                out += [(",", 1), (_case(sh["op"], sh["up"]), 1)]
                if sh["amt"] is not None:
                    out.append((("#" if sh["hash"] else "") + str(sh["amt"]), 1 if sh["hash"] else 2))
        out.append(("]", 1))
        if o["pre"]:
            out.append(("!", 1))
        if o["post"] is not None:
            out.append((",", 1))
            out += pieces(o["post"])
        return out
    raise ValueError(k)


def line_pieces(ast):
    out = [(ast["mn"], 1)]
    for i, o in enumerate(ast["ops"]):
        ps = pieces(o)
        if i == 0:
            ps[0] = (ps[0][0], 2)
        else:
            out.append((",", 1))
        out += ps
    if ast["comment"] is not None:
        out.append(("//", 1))
        for i, w in enumerate(ast["comment"]):
            out.append((w, 1 if i == 0 else 2))   # the first word may touch `//`
    return out


def gap(rng, kind, style):
    """white space for one gap; style: 0 compact, 1 single blanks, 2 random"""
    if style == 0:
        return " " if kind == 2 else ""
    if style == 1:
        return " " if kind >= 1 else ""
    n = rng.choice([0, 0, 1, 1, 1, 2, 3])
    if kind == 2:
        n = max(n, 1)
    return "".join(rng.choice(" \t") if rng.random() < 0.9 else rng.choice("  \t") for _ in range(n))


def layout(rng, ps, style=None):
    """gaps for a piece list: one white-space string per piece, plus the trailing one"""
    if style is None:
        style = rng.choice([0, 1, 2, 2, 2])
    gaps = [gap(rng, kind, style) for _, kind in ps]
    gaps.append(gap(rng, 1, style) if style == 2 else "")
    return gaps


def join(ps, gaps):
    out = []
    for (txt, _), g in zip(ps, gaps):
        out.append(g)
        out.append(txt)
    out.append(gaps[len(ps)])
    return "".join(out)


def render(rng, ast, style=None):
    ps = line_pieces(ast)
    gaps = layout(rng, ps, style)
    return join(ps, gaps), gaps


def compact(ast):
    """the line with single blanks in every gap (used when shrinking a failing input)"""
    ps = line_pieces(ast)
    return join(ps, [" " if k >= 1 and i else "" for i, (_, k) in enumerate(ps)] + [""])


# --------------------------------------------------------------------------- wire format for the Lean renderer
def _b(x):
    return "1" if x else "0"


def _w_elem(e):
    if e["k"] == "sc":
        return ["es", esc(_case(e["p"], e["up"])), str(e["n"])]
    return ["ev", esc(_case(e["p"], e["up"])), str(e["n"]), t(e["lanes"] if e["shape"] is not None else None),
            t(_case(e["shape"], e["up"]) if e["shape"] is not None else None)]


def _w_reg(r):
    k = r["k"]
    if k == "sc":
        return ["sc", esc(_case(r["p"], r["up"])), str(r["n"])]
    if k in ("sp", "zr"):
        return ["al", esc(r["t"])]
    if k == "vec":
        return ["ve"] + _w_elem(r)[1:] + [t(r.get("idx"))]
    if k == "pred":
        out = ["pr", esc(_case("p", r["up"])), str(r["n"])]
        tl = r["tail"]
        if tl is None:
            return out + ["~"]
        if tl[0] == "p":
            return out + ["P", esc(tl[1])]
        return out + ["S", t(tl[1]), esc(_case(tl[2], r["up"]))]
    raise ValueError(k)


def _w_int(o):
    v = o["v"]
    return [_b(o["hash"]), _b(v < 0 or o.get("neg0")), _b(o["hex"]), _b(o.get("hexup")), str(abs(v))]


def _w_ident(o):
    return [_b(o["hash"]), t(o["reloc"]), esc(o["name"]),
            t((("0x%x" % o["off"]) if o["offhex"] else str(o["off"])) if o["off"] is not None else None)]


def _w_op(o):
    k = o["k"]
    if k in ("sc", "vec", "sp", "zr", "pred"):
        return _w_reg(o)
    if k == "list":
        out = ["ls", t(o["idx"]), str(len(o["elems"]))]
        for e in o["elems"]:
            out += _w_elem(e)
        return out
    if k == "range":
        return ["rg", t(o["idx"])] + _w_elem(o["first"]) + [str(o["b"])]
    if k == "imm":
        return ["im"] + _w_int(o)
    if k == "flt":
        out = ["fl", _b(o["hash"]), _b(o["neg"]), esc(o["ip"]), esc(o["fp"])]
        out += [esc(o["exp"][2]), esc(o["exp"][0]), esc(o["exp"][1])] if o["exp"] else ["~"]
        return out + [t(o["f"])]
    if k == "shimm":
        return ["sh", _b(o["hash"]), _b(o["hex"]), str(o["v"]), esc(_case("lsl", o["opup"])), _b(o["amthash"]), str(o["amt"])]
    if k == "cond":
        return ["cc", esc(o["c"])]
    if k == "id":
        return ["id"] + _w_ident(o)
    if k == "prf":
        return ["pf", esc(_case(o["t"], o["up"])), esc(_case(o["g"], o["up"])), esc(_case(o["p"], o["up"]))]
    if k == "mem":
        out = ["mm"] + _w_reg(o["base"])
        if o["off"] is not None:
            out += ["O"] + (["im"] + _w_int(o["off"]) if o["off"]["k"] == "imm" else ["id"] + _w_ident(o["off"]))
        elif o["index"] is not None:
            out += ["X"] + _w_reg(o["index"]["reg"])
            sh = o["index"]["shift"]
            if sh is None:
                out += ["~"]
            else:
                out += [esc(_case(sh["op"], sh["up"]))]
                out += [_b(sh["hash"]), str(sh["amt"])] if sh["amt"] is not None else ["~"]
        else:
            out += ["N"]
        out += [_b(o["pre"])]
        out += _w_int(o["post"]) if o["post"] is not None else ["~"]
        return out
    raise ValueError(k)


def ast_wire(ast, gaps):
    out = [esc(ast["mn"]), str(len(ast["ops"]))]
    for o in ast["ops"]:
        out += _w_op(o)
    if ast["comment"] is None:
        out += ["~"]
    else:
        out += [str(len(ast["comment"]))] + [esc(w) for w in ast["comment"]]
    out += [str(len(gaps))] + [esc(g) for g in gaps]
    return " ".join(out)


# --------------------------------------------------------------------------- expectation (canonical tokens)
def _reg_expect(r, index_override=None):
    k = r["k"]
    if k == "sc":
        return ["R", esc(r["p"]), esc(str(r["n"])), NONE, NONE, t(index_override), NONE]
    if k == "vec":
        idx = index_override if index_override is not None else r.get("idx")
        return ["R", esc(r["p"]), esc(str(r["n"])), t(r["shape"]), t(r["lanes"]), t(idx), NONE]
    if k == "sp":
        return ["R", esc("x"), esc("sp"), NONE, NONE, NONE, NONE]
    if k == "zr":
        return ["R", esc(r["t"][0].lower()), esc(r["t"][1:]), NONE, NONE, NONE, NONE]
    if k == "pred":
        tl = r["tail"]
        shape = lanes = pr = None
        if tl is not None:
            if tl[0] == "p":
                pr = tl[1].lower()
            else:
                lanes, shape = tl[1], tl[2]
        return ["R", esc("p"), esc(str(r["n"])), t(shape), t(lanes), NONE, t(pr)]
    raise ValueError(k)


def _ident_expect(o):
    return [esc(o["name"]), t(":" + o["reloc"] + ":" if o["reloc"] else None),
            t((("0x%x" % o["off"]) if o["offhex"] else str(o["off"])) if o["off"] is not None else None)]


def _mem_reg(r):
    """(prefix, name) of a base/index register as `process_memory_address` must deliver it"""
    if r["k"] == "sc":
        return r["p"], str(r["n"])
    if r["k"] in ("sp", "zr"):
        return "x", r["t"][-2:]
    raise ValueError(r["k"])


def expect_operand(o):
    """list of canonical operand token lists (a register list/range expands to its members)"""
    k = o["k"]
    if k in ("sc", "vec", "sp", "zr", "pred"):
        return [_reg_expect(o)]
    if k == "list":
        return [_reg_expect(e, o["idx"]) for e in o["elems"]]
    if k == "range":
        out = []
        for n in range(o["first"]["n"], o["b"] + 1):
            e = dict(o["first"])
            e["n"] = n
            out.append(_reg_expect(e, o["idx"]))
        return out
    if k == "imm":
        return [["Ii", esc(str(o["v"]))]]
    if k == "flt":
        mant = ("-" if o["neg"] else "") + o["ip"] + "." + o["fp"]
        ty = "float" if o["f"] else "double"
        if o["exp"]:
            return [["If", esc(ty), esc(mant), esc(o["exp"][0]), esc(o["exp"][1])]]
        return [["If", esc(ty), esc(mant), NONE, NONE]]
    if k == "shimm":
        return [["Ii", esc(str(o["v"] << o["amt"]))]]
    if k == "cond":
        return [["Cc", esc(o["c"].upper())]]
    if k == "id":
        return [["Id"] + _ident_expect(o)]
    if k == "prf":
        return [["P", esc(o["t"].upper()), esc(o["g"].upper()), esc(o["p"].upper())]]
    if k == "mem":
        out = ["M"]
        off = o["off"]
        if off is None:
            out += [NONE]
        elif off["k"] == "imm":
            out += ["i", esc(str(off["v"]))]
        else:
            out += ["d"] + _ident_expect(off)
        bp, bn = _mem_reg(o["base"])
        out += [esc(bp), esc(bn)]
        scale = 1
        if o["index"] is None:
            out += [NONE]
        else:
            xp, xn = _mem_reg(o["index"]["reg"])
            sh = o["index"]["shift"]
            if sh is None:
                out += ["x", esc(xp), esc(xn), NONE, NONE]
            else:
                out += ["x", esc(xp), esc(xn), esc(sh["op"]), t(sh["amt"])]
                if sh["amt"] is not None:
                    scale = 2 ** sh["amt"]
        out += [esc(str(scale)), "1" if o["pre"] else "0"]
        if o["post"] is None:
            out += [NONE]
        else:
            out += ["i", esc(str(o["post"]["v"]))]
        return [out]
    raise ValueError(k)


def expect_line(ast):
    ops = []
    for o in ast["ops"]:
        ops += expect_operand(o)
    c = None if ast["comment"] is None else " ".join(ast["comment"])
    out = ["I", esc(ast["mn"]), t(c), str(len(ops))]
    for x in ops:
        out += x
    return " ".join(out)


# --------------------------------------------------------------------------- other line classes and files
def g_comment_line(rng):
    words = g_comment(rng) or []
    lead = "".join(rng.choice(" \t") for _ in range(rng.randrange(0, 4)))
    text = lead + "//" + "".join(("".join(rng.choice(" \t") for _ in range(rng.randrange(0 if i == 0 else 1, 3))) + w)
                                 for i, w in enumerate(words))
    text += "".join(rng.choice(" \t") for _ in range(rng.randrange(0, 3)))
    return text, " ".join(["C", esc(" ".join(words))])


def g_marker_line(rng):
    kw = rng.choice(["BEGIN", "END"])
    s = "LLVM-MCA-" + kw
    if rng.random() < 0.3:
        s = s.lower()
    lead = "".join(rng.choice(" \t") for _ in range(rng.randrange(0, 3)))
    return lead + "#" + rng.choice(["", " ", "  "]) + s + rng.choice(["", " "]), " ".join(["C", esc("# LLVM-MCA-" + kw)])


def g_label_line(rng):
    name = g_name(rng)
    words = g_comment(rng)
    lead = "".join(rng.choice(" \t") for _ in range(rng.randrange(0, 3)))
    text = lead + name + rng.choice(["", "", " "]) + ":"
    if words is not None:
        text += rng.choice(["", " ", "\t\t"]) + "//" + "".join(" " + w for w in words)
    return text, " ".join(["L", esc(name), t(None if words is None else " ".join(words))])


def g_directive_line(rng):
    name = rng.choice(["text", "align", "p2align", "byte", "word", "xword", "global", "type", "size", "cfi_startproc",
                       "cfi_def_cfa", "cfi_offset", "file", "ident", "section", "loc", "arch", "4byte"])
    r = rng.random()
    words = g_comment(rng)
    if r < 0.25:
        params, ptxt = [], ""
    elif r < 0.6:
        params = [str(rng.randrange(0, 300)) if rng.random() < 0.7 else "0x%x" % rng.randrange(0, 300)
                  for _ in range(rng.randrange(1, 4))]
        if rng.random() < 0.3 and not params[-1].startswith("0x"):
            params[-1] = "-" + params[-1]
        sep = rng.choice([",", ", ", " , "])
        ptxt = sep.join(params)
    elif r < 0.8:
        # option-like parameters (start with a letter, `%`, `@`, `.`): they extend to the next comma
        params = [rng.choice(["main", "w29", "%function", "@object", ".text", "x19"]) for _ in range(rng.randrange(1, 3))]
        ptxt = ", ".join(params)
        words = None           # such a parameter would swallow a trailing comment
    else:
        params = ['"' + "".join(rng.choice("abc xyz,._-") for _ in range(rng.randrange(0, 8))) + '"']
        ptxt = params[0]
    lead = "".join(rng.choice(" \t") for _ in range(rng.randrange(0, 3)))
    text = lead + "." + name + (rng.choice([" ", "\t", "  "]) + ptxt if ptxt else "")
    if words is not None:
        text += rng.choice([" ", "\t", "   "]) + "//" + "".join(" " + w for w in words)
    return text, " ".join(["D", esc(name), str(len(params))] + [esc(p) for p in params] +
                          [t(None if words is None else " ".join(words))])


def g_blank(rng):
    return "".join(rng.choice(" \t") for _ in range(rng.randrange(0, 4)))
