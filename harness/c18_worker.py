"""Worker process of the C18 check: runs ONE history (a list of analysis requests) in ONE fresh
Python process and reports, after every call, the report text, the digests of OSACA's
process-global state and the abstraction of the call to the History model.

usage: c18_worker.py JOB.json   (result JSON on stdout)
"""
import json
import os
import sys
import time


def main():
    job = json.load(open(sys.argv[1]))
    os.environ["HOME"] = job["home"]
    sys.path.insert(0, job["repo"])
    sys.path.insert(0, job["verif"])
    os.chdir(job["kdir"])
    from harness import c18lib as L

    import osaca.utils as U

    assert U.DATA_DIRS[0].startswith(job["home"]), U.DATA_DIRS
    import osaca.osaca as O
    from osaca.semantics.hw_model import MachineModel

    res = {"calls": [], "mode": job["mode"]}
    mode = job["mode"]
    if mode == "pristine":
        from osaca.semantics.isa_semantics import ISASemantics
        from osaca.parser import ParserAArch64, ParserX86ATT

        for a in job["archs"]:
            MachineModel(arch=a)
        isas = sorted({MachineModel.get_isa_for_arch(a) for a in job["archs"]})
        for isa in isas:
            ISASemantics(isa)
        for a in job["archs"]:
            O.get_asm_parser(a)
        px, pa = ParserX86ATT(), ParserAArch64()
        for ln in job.get("warm_x86", []):
            try:
                px.parse_line(ln, 1)
            except Exception:  # noqa
                pass
        for ln in job.get("warm_a64", []):
            try:
                pa.parse_line(ln, 1)
            except Exception:  # noqa
                pass
        res["digests"] = L.state_digests("all")
        json.dump(res, sys.stdout)
        return

    cap = None
    if job.get("capture"):
        cap = L.Capture(load_first=job.get("load_first", True))
        L.install_capture(cap)
    dmode = job.get("digest", "touched")
    res["baseline"] = L.state_digests("all") if dmode != "none" else {}
    pool = {}
    for req in job["requests"]:
        argv = list(req["argv"]) + [os.path.join(job["kdir"], req["kernel"])]
        ids_before = {p: id(d) for p, d in MachineModel._runtime_cache.items()}
        t = time.time()
        if mode == "shared":
            r = run_shared(O, L, argv, pool)
        else:
            r = L.run_request(argv)
        r["t"] = round(time.time() - t, 3)
        if cap is not None:
            r["abs"] = cap.finish_call()
        if dmode != "none":
            touched = {p for p, d in MachineModel._runtime_cache.items() if ids_before.get(p) != id(d)}
            for a in r.get("abs", []):
                for p in MachineModel._runtime_cache:
                    if L.cache_key(p) in (a["path"], a["isa_path"]):
                        touched.add(p)
            t = time.time()
            r["digests"] = L.state_digests(dmode, touched)
            r["td"] = round(time.time() - t, 3)
        res["calls"].append(r)
    if dmode != "none":
        res["final"] = L.state_digests("all")
    json.dump(res, sys.stdout)


def run_shared(O, L, argv, pool):
    """The steps of `osaca.inspect`, but with ONE MachineModel / ArchSemantics object per
    architecture kept for the whole process (how a library user such as Kerncraft holds them)."""
    import io

    from osaca.frontend import Frontend
    from osaca.parser import BaseParser
    from osaca.semantics import ArchSemantics, KernelDG, MachineModel, reduce_to_section

    out, exc, args = "", None, None
    old_err = sys.stderr
    sys.stderr = io.StringIO()
    try:
        parser = O.create_parser()
        args = parser.parse_args(argv)
        O.check_arguments(args, parser)
        code = args.file.read()
        arch = args.arch if args.arch is not None else O.DEFAULT_ARCHS[BaseParser.detect_ISA(code)]
        isa = MachineModel.get_isa_for_arch(arch)
        asm_parser = O.get_asm_parser(arch)
        parsed = asm_parser.parse_file(code)
        if args.lines:
            rng = O.get_line_range(args.lines)
            kernel = [ln for ln in parsed if ln.line_number in rng]
            length_warning = False
        else:
            kernel = reduce_to_section(parsed, isa)
            length_warning = len(kernel) == len(parsed) and len(kernel) > 100
        key = arch.lower()
        if key not in pool:
            mm = MachineModel(arch=arch)
            pool[key] = (mm, ArchSemantics(mm))
        mm, sem = pool[key]
        sem.add_semantics(kernel)
        if not args.fixed:
            sem.assign_optimal_throughput(kernel)
            sem.assign_optimal_throughput(kernel)
        kg = KernelDG(kernel, asm_parser, mm, sem, args.lcd_timeout, args.consider_flag_deps)
        fe = Frontend(args.file.name, arch=arch)
        out = fe.full_analysis(kernel, kg, ignore_unknown=args.ignore_unknown,
                               arch_warning=not args.arch, length_warning=length_warning,
                               lcd_warning=kg.timed_out, verbose=args.verbose) + "\n"
    except SystemExit as e:
        exc = "SystemExit:%s" % (e.code,)
    except Exception as e:  # noqa
        exc = "%s:%s" % (type(e).__name__, str(e)[:300])
    finally:
        sys.stderr = old_err
        try:
            if args is not None and getattr(args, "file", None) is not None:
                args.file.close()
        except Exception:  # noqa
            pass
    return {"out": L.mask(out), "exc": exc}


if __name__ == "__main__":
    main()
