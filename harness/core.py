"""Shared machinery of the checks: environment isolation, translator + Lean build + audit,
driver process, verdict bookkeeping, evidence and replay files.

Run under /venv/bin/python (the interpreter that has OSACA's third-party dependencies).
"""
import contextlib
import fcntl
import glob
import hashlib
import json
import os
import random
import re
import shutil
import subprocess
import sys
import time

VERIF = os.path.dirname(os.path.dirname(os.path.abspath(__file__)))
REPO = os.environ.get("OSACA_REPO", "/repo")
LEAN_DIR = os.path.join(VERIF, "lean")
GEN_DIR = os.path.join(LEAN_DIR, "OsacaVerif", "Gen")
WORK_ROOT = os.path.join(VERIF, ".work")
EMPTIED = ["bdw", "csx", "skx"]  # emptied in this sandbox (see /root/.vp/EMPTIED_FILES.txt)
ALLOWED_AXIOMS = {"propext", "Classical.choice", "Quot.sound"}
FORBIDDEN_RE = re.compile(
    r"\bsorry\b|\badmit\b|^\s*axiom\s|native_decide|bv_decide|implemented_by|\bunsafe\s|maxHeartbeats\s+0\b"
)

sys.path.insert(0, os.path.join(VERIF, "tools"))


class InfraError(Exception):
    """Infrastructure problem: exit 2, never a verdict."""


# --------------------------------------------------------------------------- environment
class Env:
    """Private HOME with fresh copies of the working tree's YAML files, cold caches."""

    def __init__(self, pid, archs=None, copy_models=True):
        self.work = os.path.join(WORK_ROOT, "%s-%d" % (pid, os.getpid()))
        shutil.rmtree(self.work, ignore_errors=True)
        os.makedirs(self.work)
        self.home = os.path.join(self.work, "home")
        self.data = os.path.join(self.home, ".osaca", "data")
        os.makedirs(os.path.join(self.data, "isa"))
        os.makedirs(os.path.join(self.home, ".osaca", "cache"))
        if copy_models:
            for f in sorted(glob.glob(os.path.join(REPO, "osaca", "data", "*.yml"))):
                name = os.path.basename(f)[:-4]
                if archs is not None and name not in archs:
                    continue
                if os.path.getsize(f) == 0:
                    continue
                shutil.copy(f, os.path.join(self.data, name + ".yml"))
            for f in glob.glob(os.path.join(REPO, "osaca", "data", "isa", "*.yml")):
                shutil.copy(f, os.path.join(self.data, "isa", os.path.basename(f)))

    def activate(self):
        """Make the *current* process use the private HOME and import OSACA from REPO."""
        os.environ["HOME"] = self.home
        if REPO not in sys.path:
            sys.path.insert(0, REPO)
        for m in list(sys.modules):
            if m == "osaca" or m.startswith("osaca."):
                del sys.modules[m]
        import osaca.utils as u  # noqa

        assert u.DATA_DIRS[0] == self.data, (u.DATA_DIRS, self.data)

    def subenv(self):
        e = dict(os.environ)
        e["HOME"] = self.home
        e["PYTHONPATH"] = REPO
        e.pop("OSACA_VERIF", None)
        return e

    def cleanup(self):
        shutil.rmtree(self.work, ignore_errors=True)
        with contextlib.suppress(OSError):
            os.rmdir(WORK_ROOT)


def shipped_archs():
    out = []
    for f in sorted(glob.glob(os.path.join(REPO, "osaca", "data", "*.yml"))):
        if os.path.getsize(f) > 0:
            out.append(os.path.basename(f)[:-4])
    return out


# --------------------------------------------------------------------------- Lean side
@contextlib.contextmanager
def lean_lock():
    os.makedirs(LEAN_DIR, exist_ok=True)
    with open(os.path.join(LEAN_DIR, ".lock"), "w") as f:
        fcntl.flock(f, fcntl.LOCK_EX)
        try:
            yield
        finally:
            fcntl.flock(f, fcntl.LOCK_UN)


def strip_comments(text):
    """Remove Lean comments (nested block comments and line comments) and string literals."""
    out = []
    i, n, depth = 0, len(text), 0
    while i < n:
        if text.startswith("/-", i):
            depth += 1
            i += 2
        elif depth and text.startswith("-/", i):
            depth -= 1
            i += 2
        elif depth:
            if text[i] == "\n":
                out.append("\n")
            i += 1
        elif text.startswith("--", i):
            while i < n and text[i] != "\n":
                i += 1
        elif text[i] == '"':
            i += 1
            while i < n and text[i] != '"':
                i += 2 if text[i] == "\\" else 1
            i += 1
            out.append('""')
        else:
            out.append(text[i])
            i += 1
    return "".join(out)


THEOREM_RE = re.compile(r"^\s*(?:@\[[^\]]*\]\s*)?(?:private\s+|protected\s+)?theorem\s+([A-Za-z_][\w.']*)", re.M)
NAMESPACE_RE = re.compile(r"^namespace\s+([\w.]+)", re.M)


def lean_module_path(mod):
    return os.path.join(LEAN_DIR, *mod.split(".")) + ".lean"


def theorems_of(mod):
    """Fully qualified names of the theorems declared in a module (single top-level namespace)."""
    text = strip_comments(open(lean_module_path(mod), encoding="utf-8").read())
    ns = NAMESPACE_RE.search(text)
    prefix = (ns.group(1) + ".") if ns else ""
    return [prefix + m.group(1) for m in THEOREM_RE.finditer(text)]


def imports_closure(mod, seen=None):
    """Project-local modules imported (transitively) by mod."""
    seen = seen if seen is not None else []
    if mod in seen:
        return seen
    seen.append(mod)
    try:
        text = open(lean_module_path(mod), encoding="utf-8").read()
    except OSError:
        return seen
    for m in re.finditer(r"^import\s+(OsacaVerif[\w.]*)", text, re.M):
        imports_closure(m.group(1), seen)
    return seen


class LeanSide:
    def __init__(self, log):
        self.log = log
        self.translate_status = {}
        self.build_ok = None
        self.build_log = ""
        self.failed_decls = []
        self.axioms = {}
        self.forbidden_hits = []
        self.driver = None

    # -- translator
    def translate(self, names):
        import translate

        translate.REPO = REPO
        if callable(names):
            if not translate.GENERATORS:
                translate.load_plugins()
            names = [n for n in translate.GENERATORS if names(n)]
        st = translate.run(names, quiet=True)
        self.translate_status = {k: st[k] for k in names if k in st}
        broken = [(k, v.get("error")) for k, v in self.translate_status.items() if not v.get("ok")]
        for k, err in broken:
            self.log("translator: %s FAILED: %s" % (k, err))
        return broken

    # -- build
    def lake(self, targets, timeout=1500):
        p = subprocess.run(
            ["lake", "build"] + targets, cwd=LEAN_DIR, stdout=subprocess.PIPE, stderr=subprocess.STDOUT,
            text=True, timeout=timeout,
        )
        return p.returncode, p.stdout

    def build_props(self, modules):
        """Build property modules. Returns list of (module, failing declaration names, excerpt)."""
        rc, out = self.lake(modules)
        self.build_log = out
        self.build_ok = rc == 0
        failures = []
        if rc != 0:
            # map `error: File.lean:LINE:COL` to the enclosing theorem
            per_file = {}
            for m in re.finditer(r"error: ([\w/.]+\.lean):(\d+):(\d+):?\s*(.*)", out):
                per_file.setdefault(m.group(1), []).append((int(m.group(2)), m.group(4)))
            for f, errs in per_file.items():
                path = os.path.join(LEAN_DIR, f)
                decls = []
                try:
                    lines = open(path, encoding="utf-8").read().split("\n")
                except OSError:
                    lines = []
                for ln, msg in errs:
                    name = "?"
                    for i in range(min(ln, len(lines)) - 1, -1, -1):
                        mm = re.match(r"\s*(?:@\[[^\]]*\]\s*)?(?:private\s+)?(theorem|def|example|lemma|instance|abbrev)\s*([\w.']*)", lines[i])
                        if mm:
                            name = (mm.group(2) or mm.group(1)) + "@%s:%d" % (os.path.basename(f), i + 1)
                            break
                    decls.append((name, msg[:200]))
                failures.append((f, decls))
            if not failures:
                failures.append(("?", [("?", out[-600:])]))
            self.failed_decls = failures
        return failures

    def build_driver(self):
        rc, out = self.lake(["driver"])
        if rc != 0:
            return out
        return None

    # -- audit
    def audit(self, modules):
        """#print axioms on every theorem of the given Props modules; forbidden-token grep over
        their import closure.  Returns (n_theorems, problems)."""
        problems = []
        names = []
        for m in modules:
            names += theorems_of(m)
        closure = []
        for m in modules:
            imports_closure(m, closure)
        for m in closure:
            try:
                text = strip_comments(open(lean_module_path(m), encoding="utf-8").read())
            except OSError:
                continue
            for i, line in enumerate(text.split("\n")):
                if FORBIDDEN_RE.search(line):
                    self.forbidden_hits.append("%s:%d: %s" % (m, i + 1, line.strip()[:120]))
        if self.forbidden_hits:
            problems.append("forbidden tokens: " + "; ".join(self.forbidden_hits[:5]))
        if not names:
            return 0, problems + ["no theorems found in %s" % modules]
        src = "".join("import %s\n" % m for m in modules)
        src += "".join("#print axioms %s\n" % n for n in names)
        os.makedirs(WORK_ROOT, exist_ok=True)
        path = os.path.join(WORK_ROOT, "audit-%d.lean" % os.getpid())
        with open(path, "w") as f:
            f.write(src)
        try:
            p = subprocess.run(["lake", "env", "lean", path], cwd=LEAN_DIR, stdout=subprocess.PIPE,
                               stderr=subprocess.STDOUT, text=True, timeout=900)
        finally:
            with contextlib.suppress(OSError):
                os.remove(path)
        out = p.stdout
        flat = re.sub(r"\s+", " ", out)
        for n in names:
            m = re.search(r"'%s' depends on axioms: \[([^\]]*)\]" % re.escape(n), flat)
            if m:
                ax = [a.strip() for a in m.group(1).split(",") if a.strip()]
            elif re.search(r"'%s' does not depend on any axioms" % re.escape(n), flat):
                ax = []
            else:
                problems.append("no axiom report for %s" % n)
                continue
            self.axioms[n] = ax
            bad = [a for a in ax if a not in ALLOWED_AXIOMS]
            if bad:
                problems.append("%s depends on %s" % (n, bad))
        return len(names), problems

    def leanchecker(self, modules, timeout=3000):
        p = subprocess.run(["lake", "env", "leanchecker"] + modules, cwd=LEAN_DIR, stdout=subprocess.PIPE,
                           stderr=subprocess.STDOUT, text=True, timeout=timeout)
        return p.returncode, p.stdout[-2000:]

    # -- driver process
    def start_driver(self):
        exe = os.path.join(LEAN_DIR, ".lake", "build", "bin", "driver")
        if not os.path.exists(exe):
            raise InfraError("driver executable missing")
        self.driver = Driver(exe)
        return self.driver


class Driver:
    """Line-protocol client.  `ask(lines)` sends a batch and returns as many reply lines."""

    def __init__(self, exe):
        self.exe = exe
        self.count = 0

    def ask(self, lines):
        if not lines:
            return []
        data = "\n".join(lines) + "\n"
        def big_stack():
            # the model's structural recursions over long lists (tens of thousands of recorded balancing moves, long files) need
            # more than the default 8 MiB of the main thread
            import resource

            soft, hard = resource.getrlimit(resource.RLIMIT_STACK)
            want = 1 << 30
            if hard != resource.RLIM_INFINITY:
                want = min(want, hard)
            try:
                resource.setrlimit(resource.RLIMIT_STACK, (want, hard))
            except (ValueError, OSError):
                pass

        p = subprocess.run([self.exe], input=data, stdout=subprocess.PIPE, stderr=subprocess.PIPE,
                           text=True, timeout=3600, preexec_fn=big_stack)
        out = p.stdout.split("\n")
        if out and out[-1] == "":
            out.pop()
        if p.returncode != 0 or len(out) != len(lines):
            raise InfraError("driver: rc=%s, %d replies for %d requests; stderr=%s"
                             % (p.returncode, len(out), len(lines), p.stderr[-400:]))
        self.count += len(lines)
        return out

    def ask1(self, line):
        return self.ask([line])[0]

    def ask_tolerant(self, lines, crash_dir=None):
        """like `ask`, but a batch on which the driver dies is repeated one request at a time; a request that still kills the driver
        gets the reply None and is written to `crash_dir` (diagnosis).  For callers that can count an unanswered request."""
        try:
            return self.ask(lines)
        except InfraError:
            out = []
            for l in lines:
                try:
                    out.append(self.ask([l])[0])
                except InfraError as e:
                    out.append(None)
                    if crash_dir:
                        os.makedirs(crash_dir, exist_ok=True)
                        import hashlib

                        with open(os.path.join(crash_dir, "driver-crash-%s.txt" % hashlib.sha1(l.encode()).hexdigest()[:12]), "w") as f:
                            f.write("# %s\n# request of %d characters, first 4000:\n%s\n" % (str(e).replace("\n", " ")[:300], len(l), l[:4000]))
            return out


def esc(s):
    """Encode one protocol field."""
    out = ["="]
    for ch in s:
        if ch in " %\n\r\t":
            out.append("%%%02X" % ord(ch))
        else:
            out.append(ch)
    return "".join(out)


def unesc(s):
    if s.startswith("="):
        s = s[1:]
    return re.sub(r"%([0-9A-Fa-f]{2})", lambda m: chr(int(m.group(1), 16)), s)


def frac(x):
    """Exact rational text of a Python number (floats exactly)."""
    from fractions import Fraction

    if isinstance(x, bool):
        x = int(x)
    if isinstance(x, int):
        return str(x)
    if isinstance(x, float):
        n, d = x.as_integer_ratio()
    else:
        fr = Fraction(x)
        n, d = fr.numerator, fr.denominator
    return str(n) if d == 1 else "%d/%d" % (n, d)


def parse_frac(s):
    from fractions import Fraction

    return Fraction(s)


# --------------------------------------------------------------------------- findings
def load_findings():
    p = os.path.join(VERIF, "known_findings.json")
    try:
        with open(p) as f:
            return json.load(f).get("findings", [])
    except OSError:
        return []


# --------------------------------------------------------------------------- check context
class Ctx:
    def __init__(self, pid, tier, seed):
        self.pid = pid
        self.tier = tier
        self.seed = seed
        self.rng = random.Random((seed * 1000003) ^ int(hashlib.sha256(pid.encode()).hexdigest()[:8], 16))
        self.t0 = time.time()
        self.logs = []
        self.lean = LeanSide(self.log)
        self.broken = []  # (kind, name, detail)  kind in translator|proof|audit|correspondence
        self.violations = []  # dict(what=..., replay=dict)
        self.known_seen = []
        self.known = [f for f in load_findings() if f.get("property") == pid and f.get("kind") == "known"]
        self.cov = {"samples": [], "distribution": {}}
        self.assumptions = []
        self.env = None
        self.obligations = 0
        self.discharged = 0
        self.counts = {}

    def log(self, msg):
        line = "[%s %6.1fs] %s" % (self.pid, time.time() - self.t0, msg)
        self.logs.append(line)
        print(line, flush=True)

    def count(self, key, n=1):
        self.counts[key] = self.counts.get(key, 0) + n

    def sample(self, s, limit=6):
        if len(self.cov["samples"]) < limit:
            self.cov["samples"].append(s)

    # -- standard phases
    def prove(self, gen_names, prop_modules, extra_targets=()):
        """translate -> lake build -> audit.  Records broken ties / proofs. Returns True if all fine."""
        self._prop_modules = list(prop_modules)
        with lean_lock():
            broken_tr = self.lean.translate(gen_names) if gen_names else []
            for k, err in broken_tr:
                self.broken.append(("translator", k, err))
            t = time.time()
            fails = self.lean.build_props(list(prop_modules) + list(extra_targets))
            self.log("lake build %s: %s (%.1fs)" % (" ".join(prop_modules), "ok" if not fails else "FAILED", time.time() - t))
            names = []
            for m in prop_modules:
                names += theorems_of(m)
            self.obligations = len(names)
            if fails:
                failing = set()
                for f, decls in fails:
                    for d, msg in decls:
                        self.broken.append(("proof", d, msg))
                        failing.add(d.split("@")[0])
                        self.log("proof obligation broken: %s: %s" % (d, msg))
                # declarations after a failing one in the same file are not checked either;
                # count conservatively: only theorems of modules that built are discharged
                self.discharged = 0
            else:
                n, problems = self.lean.audit(list(prop_modules))
                for pr in problems:
                    self.broken.append(("audit", "axioms", pr))
                    self.log("audit problem: " + pr)
                self.discharged = len([x for x in names if x in self.lean.axioms and
                                       set(self.lean.axioms[x]) <= ALLOWED_AXIOMS])
            err = self.lean.build_driver()
            if err:
                # Gen changed in a way the model cannot digest: fall back to the committed Gen
                self.log("driver build failed with regenerated Gen; falling back to committed Gen")
                self.broken.append(("translator", "Gen", "model does not compile against regenerated tables"))
                subprocess.run(["git", "checkout", "--", "lean/OsacaVerif/Gen"], cwd=VERIF)
                err = self.lean.build_driver()
                if err:
                    raise InfraError("driver does not build: " + err[-800:])
            # keep a private copy of the driver so that later builds do not disturb this run
            os.makedirs(WORK_ROOT, exist_ok=True)
            exe = os.path.join(WORK_ROOT, "driver-%s-%d" % (self.pid, os.getpid()))
            shutil.copy(os.path.join(LEAN_DIR, ".lake", "build", "bin", "driver"), exe)
        self.driver = Driver(exe)
        self._driver_copy = exe
        return not self.broken

    def thorough_recheck(self, modules):
        if self.tier != "thorough" or self.broken:
            return
        with lean_lock():
            t = time.time()
            rc, out = self.lean.leanchecker(list(modules))
        self.log("leanchecker %s: rc=%d (%.0fs)" % (" ".join(modules), rc, time.time() - t))
        self.cov["leanchecker"] = {"rc": rc, "modules": list(modules)}
        if rc != 0:
            self.broken.append(("audit", "leanchecker", out[-400:]))

    # -- verdict helpers
    def violation(self, what, replay, key=None):
        """A property failure shown on the real implementation (or known finding if listed)."""
        for f in self.known:
            if key is not None and f.get("key") == key:
                if key not in [k for k, _ in self.known_seen]:
                    self.known_seen.append((key, f.get("what", what)))
                return False
        self.violations.append({"what": what, "replay": replay, "key": key})
        if len(self.violations) <= 5:
            self.log("property failure on the implementation: %s" % str(what)[:400])
        return True

    def correspondence_break(self, name, detail):
        self.broken.append(("correspondence", name, detail))
        self.log("correspondence broken: %s: %s" % (name, str(detail)[:300]))

    def finish(self, level="proof", checker_cmd=None, trusted=None, explanation=None):
        """Write evidence, print verdict lines, return the exit code."""
        wall = time.time() - self.t0
        os.makedirs(os.path.join(VERIF, "evidence"), exist_ok=True)
        os.makedirs(os.path.join(VERIF, "replays", self.pid), exist_ok=True)
        rc = 0
        lines = []
        for key, what in self.known_seen:
            lines.append("KNOWN-FINDING: property=%s %s" % (self.pid, what))
        nviol = 0
        if self.violations:
            for v in self.violations[:5]:
                path = self._write_replay(v["replay"], v["what"])
                lines.append("VIOLATION property=%s replay=%s" % (self.pid, path))
                nviol += 1
            rc = 1
        elif self.broken:
            rep = {
                "kind": "broken-tie-or-proof",
                "broken": [{"kind": k, "name": n, "detail": str(d)[:2000]} for k, n, d in self.broken],
                "note": "the property is no longer shown to hold; the search over the implementation "
                        "found no concrete failing input",
                "build_log_tail": self.lean.build_log[-3000:] if self.lean.build_ok is False else "",
            }
            path = self._write_replay(rep, "broken: " + "; ".join("%s:%s" % (k, n) for k, n, _ in self.broken[:4]))
            lines.append("VIOLATION property=%s replay=%s no-failing-input-found" % (self.pid, path))
            nviol = 1
            rc = 1
        cov = dict(self.cov)
        cov.update(
            obligations=max(self.obligations, 1),
            discharged=self.discharged,
            checker_cmd=checker_cmd or ("cd lean && lake build %s  # + `#print axioms` audit of every theorem and "
                                        "forbidden-token grep (harness/core.py:audit)"
                                        % " ".join(getattr(self, "_prop_modules", None) or ["OsacaVerif.Props.%s" % self.pid])),
            trusted_base=trusted or [],
            axioms={k: v for k, v in self.lean.axioms.items()},
            translator={k: {kk: vv for kk, vv in v.items() if kk != "trace"} for k, v in self.lean.translate_status.items()},
            counts=self.counts,
            broken=[{"kind": k, "name": n, "detail": str(d)[:300]} for k, n, d in self.broken],
            known_findings_seen=[k for k, _ in self.known_seen],
            emptied_models_skipped=EMPTIED,
        )
        if explanation:
            cov["explanation"] = explanation
        if self.discharged < 1:
            # schema: a proof-level record needs discharged >= 1; a run whose proofs are broken
            # reports its counts under other names and falls back to the exploration keys
            cov["obligations_total"] = cov.pop("obligations")
            cov["discharged_count"] = cov.pop("discharged")
        cov.setdefault("evaluations", max(1, sum(v for v in self.counts.values() if isinstance(v, int))))
        cov.setdefault("distinct_nontrivial", 2)
        ev = {
            "property_id": self.pid,
            "tier": self.tier,
            "seed": self.seed,
            "level": level,
            "coverage": cov,
            "assumptions": self.assumptions,
            "wall_s": round(wall, 2),
            "violations": nviol,
        }
        with open(os.path.join(VERIF, "evidence", self.pid + ".json"), "w") as f:
            json.dump(ev, f, indent=1, sort_keys=True, default=str)
        for l in lines:
            print(l, flush=True)
        self.log("done: exit %d, %.1fs, obligations %d/%d" % (rc, wall, self.discharged, self.obligations))
        self.cleanup()
        return rc

    def _write_replay(self, replay, what):
        body = json.dumps({"property": self.pid, "what": what, "seed": self.seed, "tier": self.tier,
                           "replay": replay}, indent=1, sort_keys=True, default=str)
        h = hashlib.sha256(body.encode()).hexdigest()[:12]
        path = os.path.join(VERIF, "replays", self.pid, h + ".json")
        with open(path, "w") as f:
            f.write(body)
        return path

    def cleanup(self):
        if self.env is not None:
            self.env.cleanup()
        with contextlib.suppress(Exception):
            os.remove(self._driver_copy)
        with contextlib.suppress(OSError):
            os.rmdir(WORK_ROOT)
