"""C11 at the level of the numeric analysis: the composed Lean pipeline (Model/Pipeline.lean, driver op
`pipe.run`) against the real `osaca.osaca.run` path under `--fixed`.

For every generated file the real CLI path is run IN-PROCESS (argparse -> check_arguments -> run -> inspect);
`BaseParser.parse_file` and `Frontend.full_analysis` are wrapped (nothing in the repo is changed) to capture
the parsed file (before selection) and the kernel / KernelDG objects the front end receives.  The parsed file
is encoded line by line -- C11's abstraction of the line for the selection, and the implementation's
per-instruction semantic data (semantic operands, latencies, throughput, pressure, register changes) -- and
sent to the driver, which runs selection o graph o critical path o LCD o column sums.  The model's whole
analysis is compared with what the real pipeline produced (1e-9 on numbers).

Besides the correspondence, the variants of one kernel (marked / --lines / body alone / noise / noise + --lines /
prologue beyond line 1000) are compared with one another on the implementation's own results, modulo the
renaming of line numbers by instruction ordinal (the statement of Props/C11Pipeline): a difference is a
concrete violation with a replayable pair of files.
"""
import copy
import io
import os
import random
from fractions import Fraction

from harness import core, dgenc
from harness import c11_lib as L
from harness.core import esc

TOL = 1e-9


# --------------------------------------------------------------------------- running the real pipeline
class Capture:
    """wrap BaseParser.parse_file and Frontend.full_analysis for the duration of a run"""

    def __enter__(self):
        from osaca.frontend import Frontend
        from osaca.parser.base_parser import BaseParser

        self.cap = {}
        self.Frontend, self.BaseParser = Frontend, BaseParser
        self.orig_fa, self.orig_pf = Frontend.full_analysis, BaseParser.parse_file
        cap = self.cap

        def full_analysis(fe, kernel, kernel_dg, **kw):
            cap["kernel"], cap["dg"], cap["kw"] = kernel, kernel_dg, kw
            return self.orig_fa(fe, kernel, kernel_dg, **kw)

        def parse_file(p, content, start_line=0):
            res = self.orig_pf(p, content, start_line)
            cap["parsed"], cap["parser"] = res, p
            return res

        Frontend.full_analysis = full_analysis
        BaseParser.parse_file = parse_file
        return self

    def __exit__(self, *a):
        self.Frontend.full_analysis = self.orig_fa
        self.BaseParser.parse_file = self.orig_pf
        return False


def run_real(arch, path, lines_spec, flag_deps):
    """-> dict(parsed, parser, kernel, dg) or dict(error=...)"""
    import osaca.osaca as O

    argv = ["--arch", arch, "--fixed", "--lcd-timeout", "-1", "--ignore-unknown"]
    if flag_deps:
        argv.append("--consider-flag-deps")
    if lines_spec is not None:
        argv += ["--lines", lines_spec]
    argv.append(path)
    with Capture() as c:
        try:
            p = O.create_parser()
            args = p.parse_args(argv)
            O.check_arguments(args, p)
            try:
                O.run(args, output_file=io.StringIO())
            finally:
                args.file.close()
        except BaseException as e:  # noqa (SystemExit of argparse included)
            out = dict(c.cap)
            out["error"] = "%s: %s" % (type(e).__name__, str(e)[:200])
            out["exc"] = type(e).__name__
            return out
        return dict(c.cap)


# --------------------------------------------------------------------------- encoding
def fr(x):
    return Fraction(*float(x).as_integer_ratio()) if x is not None else None


def sem_row(ins, sem):
    """one row of <sem>: dgenc's ten fields + throughput + pressure; second value: outside the model's domain"""
    y, raised = dgenc.ins_y(ins, sem)
    tp = fr(ins.throughput if ins.throughput is not None else 0.0)
    pp = [fr(v) for v in (ins.port_pressure or [])]
    return y + [tp, pp], raised


def encode_file(res):
    """-> (list of line fields, sem Y text, raised)"""
    parsed, parser, kernel, dg = res["parsed"], res["parser"], res.get("kernel") or [], res.get("dg")
    sem = dg.arch_sem if dg is not None else None
    inside = {id(x) for x in kernel}
    rows, raised = [], False
    for f in parsed:
        if id(f) in inside or sem is None:
            obj = f
        else:
            # a line outside the selection never went through add_semantics: give the model what the same
            # per-line functions compute for it (the model only looks at it if it selects the line)
            obj = copy.deepcopy(f)
            try:
                sem.assign_src_dst(obj)
                sem.assign_tp_lt(obj)
            except Exception:  # noqa
                obj = f
        try:
            y, r = sem_row(obj, sem) if sem is not None else ([f.line_number, Fraction(0), None, False, False, [], [], [], [], [],
                                                              Fraction(0), []], False)
        except Exception:  # noqa
            y, r = [f.line_number, Fraction(0), None, False, False, [], [], [], [], [], Fraction(0), []], (id(f) in inside)
        rows.append(y)
        if id(f) in inside:
            raised = raised or r
    return [esc(L.abstract_line(f, parser)) for f in parsed], dgenc.yenc2(rows), raised


def impl_view(res):
    """the implementation's analysis in the vocabulary of the driver's reply"""
    from osaca.semantics import ArchSemantics

    kernel, dg = res["kernel"], res["dg"]
    rows = []
    for x in kernel:
        rows.append((x.line_number, x.mnemonic is not None, float(x.latency if x.latency is not None else 0.0),
                     None if x.latency_wo_load is None else float(x.latency_wo_load),
                     float(x.throughput if x.throughput is not None else 0.0), [float(v) for v in (x.port_pressure or [])]))
    cp = dg.get_critical_path()
    lcd = dg.get_loopcarried_dependencies()
    lcd_list = []
    for key, v in lcd.items():
        lcd_list.append((tuple(d[0].line_number for d in v["dependencies"]), float(v["latency"]),
                         [(d[0].line_number, float(d[1])) for d in v["dependencies"]], str(key)))
    fig, marks = 0.0, []
    if lcd:
        longest = max(lcd, key=lambda ln: lcd[ln]["latency"])
        fig = float(lcd[longest]["latency"])
        marks = sorted({d[0].line_number: float(d[1]) for d in lcd[longest]["dependencies"]}.items())
    return {
        "rows": rows,
        "edges": dgenc.impl_edges(dg.dg),
        "cptotal": float(sum(x.latency_cp for x in cp)),
        "cpmarks": [(x.line_number, float(x.latency_cp)) for x in cp],
        "lcd": lcd_list,
        "lcdfig": fig,
        "lcdmarks": marks,
        "colsums": [float(v) for v in ArchSemantics.get_throughput_sum(kernel)],
        "nodes": sorted(n for n in dg.dg.nodes),
    }


def parse_reply(rep):
    if not rep.startswith("ok"):
        return rep
    out = {}
    for tok in rep.split(" ")[1:]:
        k, _, v = tok.partition("=")
        out[k] = v

    def pairs(s):
        return [(int(t.split(":")[0]), Fraction(t.split(":")[1])) for t in s.split(",") if t]

    rows = []
    for t in (out.get("rows") or "").split("|"):
        if not t:
            continue
        ln, ins, lat, lw, tp, pp = t.split(":")
        rows.append((int(ln), ins == "1", Fraction(lat), None if lw == "N" else Fraction(lw), Fraction(tp),
                     [Fraction(x) for x in pp.split(",") if x]))
    edges = {}
    for t in (out.get("edges") or "").split(","):
        if t:
            sd, w = t.split(":")
            s, d = sd.split(">")
            edges[(s, d)] = Fraction(w)
    lcd = []
    for t in (out.get("lcd") or "").split("|"):
        if t:
            key, lat, mem = t.split("~")
            lcd.append((tuple(int(x) for x in key.split("-")), Fraction(lat), pairs(mem)))
    return {"rows": rows, "edges": edges, "cptotal": Fraction(out.get("cptotal") or "0"), "cpmarks": pairs(out.get("cpmarks") or ""),
            "lcd": lcd, "lcdfig": Fraction(out.get("lcdfig") or "0"), "lcdmarks": pairs(out.get("lcdmarks") or ""),
            "colsums": [Fraction(x) for x in (out.get("colsums") or "").split(",") if x]}


def close(a, b):
    if a is None or b is None:
        return a is b
    return abs(float(a) - float(b)) <= TOL * max(1.0, abs(float(a)), abs(float(b)))


def diff_model_impl(m, im, counts):
    """first difference between the model's analysis and the implementation's, or None"""
    if [r[0] for r in m["rows"]] != [r[0] for r in im["rows"]]:
        return "selected lines: model %s impl %s" % ([r[0] for r in m["rows"]][:30], [r[0] for r in im["rows"]][:30])
    for a, b in zip(m["rows"], im["rows"]):
        if a[1] != b[1] or not close(a[2], b[2]) or not close(a[3], b[3]) or not close(a[4], b[4]) or len(a[5]) != len(b[5]) \
                or not all(close(x, y) for x, y in zip(a[5], b[5])):
            return "per-line numbers of line %d: model %s impl %s" % (a[0], [a[1]] + [None if v is None else float(v) for v in a[2:5]]
                                                                    + [[float(v) for v in a[5]]], list(b[1:]))
    d = dgenc.diff_edges(m["edges"], im["edges"])
    if d:
        return d
    if not close(m["cptotal"], im["cptotal"]):
        return "critical path total: model %s impl %r" % (float(m["cptotal"]), im["cptotal"])
    same = len(m["cpmarks"]) == len(im["cpmarks"]) and all(a[0] == b[0] and close(a[1], b[1])
                                                          for a, b in zip(m["cpmarks"], im["cpmarks"]))
    if not same:
        return "critical path marks: model %s impl %s" % ([(l, float(v)) for l, v in m["cpmarks"]], im["cpmarks"])
    ml = {k: (lat, mem) for k, lat, mem in m["lcd"]}
    il = {k: (lat, mem) for k, lat, mem, _ in im["lcd"]}
    if set(ml) != set(il):
        return "loop-carried dependencies: model %s impl %s" % (sorted(ml), sorted(il))
    for k in ml:
        if not close(ml[k][0], il[k][0]) or [x[0] for x in ml[k][1]] != [x[0] for x in il[k][1]] or \
                not all(close(x[1], y[1]) for x, y in zip(ml[k][1], il[k][1])):
            return "loop-carried dependency %s: model %s impl %s" % (k, (float(ml[k][0]), ml[k][1]), il[k])
    if not close(m["lcdfig"], im["lcdfig"]):
        return "LCD figure: model %s impl %r" % (float(m["lcdfig"]), im["lcdfig"])
    mm = sorted((l, float(v)) for l, v in m["lcdmarks"])
    if [x[0] for x in mm] != [x[0] for x in im["lcdmarks"]] or not all(close(x[1], y[1]) for x, y in zip(mm, im["lcdmarks"])):
        # several entries of (numerically) maximal latency: float summation order may break the tie differently
        top = [k for k in il if close(il[k][0], im["lcdfig"])]
        if len(top) > 1 and tuple(sorted(x[0] for x in mm)) in [tuple(sorted(k)) for k in top]:
            counts["lcd_marks_other_tie"] = counts.get("lcd_marks_other_tie", 0) + 1
        else:
            return "LCD marks: model %s impl %s" % (mm, im["lcdmarks"])
    if len(m["colsums"]) != len(im["colsums"]):
        return "column sums: model %s impl %s" % ([float(v) for v in m["colsums"]], im["colsums"])
    for j, (a, b) in enumerate(zip(m["colsums"], im["colsums"])):
        if not close(a, b):
            # a rounding tie of round(x, 2): the float sum may fall on the other side of the half-cent
            exact = sum((Fraction(*float(r[5][j]).as_integer_ratio()) for r in im["rows"] if r[4] != 0.0), Fraction(0))
            frac = float(exact * 100 - int(exact * 100))
            if abs(frac - 0.5) < 1e-6 and abs(float(a) - b) <= 0.01 + 1e-9:
                counts["colsum_rounding_ties"] = counts.get("colsum_rounding_ties", 0) + 1
                continue
            return "column sum of port %d: model %s impl %r" % (j, float(a), b)
    return None


# --------------------------------------------------------------------------- metamorphic view (implementation only)
def ordinal_view(im):
    """the implementation's analysis with line numbers replaced by instruction ordinals"""
    instr = [r for r in im["rows"] if r[1]]
    o = {r[0]: k for k, r in enumerate(instr)}

    def name(n):
        n = int(str(n).rstrip("L")) if isinstance(n, str) else n
        return o.get(n, "non-instr:%s" % n)

    return {
        "per": [r[2:] for r in instr],
        "edges": sorted((((name(s), s.endswith("L")), name(d), round(w, 9)) for (s, d), w in im["edges"].items()), key=repr),
        "cptotal": im["cptotal"],
        "cpmarks": [(name(l), v) for l, v in im["cpmarks"]],
        "lcd": sorted(((tuple(name(l) for l in k), round(lat, 9), [(name(l), round(v, 9)) for l, v in mem])
                       for k, lat, mem, _ in im["lcd"]), key=repr),
        "lcdfig": im["lcdfig"],
        "lcdmarks": [(name(l), v) for l, v in im["lcdmarks"]],
        "colsums": im["colsums"],
    }


def diff_ordinal(a, b):
    if len(a["per"]) != len(b["per"]):
        return "number of instructions %d vs %d" % (len(a["per"]), len(b["per"]))
    for k, (x, y) in enumerate(zip(a["per"], b["per"])):
        if not (close(x[0], y[0]) and close(x[1], y[1]) and close(x[2], y[2]) and len(x[3]) == len(y[3])
                and all(close(p, q) for p, q in zip(x[3], y[3]))):
            return "instruction #%d: latency/throughput/pressure %s vs %s" % (k, x, y)
    if [e[:2] for e in a["edges"]] != [e[:2] for e in b["edges"]] or \
            not all(close(x[2], y[2]) for x, y in zip(a["edges"], b["edges"])):
        ea, eb = set(e[:2] for e in a["edges"]), set(e[:2] for e in b["edges"])
        return "dependency edges (by instruction ordinal): only in the first %s, only in the second %s" % (
            sorted(ea - eb, key=str)[:4], sorted(eb - ea, key=str)[:4])
    if not close(a["cptotal"], b["cptotal"]):
        return "critical path %s vs %s" % (a["cptotal"], b["cptotal"])
    if a["cptotal"] > TOL and ([x[0] for x in a["cpmarks"]] != [x[0] for x in b["cpmarks"]] or
                               not all(close(x[1], y[1]) for x, y in zip(a["cpmarks"], b["cpmarks"]))):
        return "critical path instructions %s vs %s" % (a["cpmarks"], b["cpmarks"])
    if [x[0] for x in a["lcd"]] != [x[0] for x in b["lcd"]] or not all(close(x[1], y[1]) for x, y in zip(a["lcd"], b["lcd"])):
        return "loop-carried dependencies %s vs %s" % ([x[:2] for x in a["lcd"]][:5], [x[:2] for x in b["lcd"]][:5])
    if not close(a["lcdfig"], b["lcdfig"]):
        return "LCD %s vs %s" % (a["lcdfig"], b["lcdfig"])
    if len(a["colsums"]) != len(b["colsums"]) or not all(close(p, q) for p, q in zip(a["colsums"], b["colsums"])):
        return "port pressure sums %s vs %s" % (a["colsums"], b["colsums"])
    return None


def noise_carries_nothing(im):
    touched = set()
    for (s, d) in im["edges"]:
        touched.add(int(s.rstrip("L")))
        touched.add(int(d))
    for r in im["rows"]:
        if not r[1]:
            if abs(r[2]) > TOL or abs(r[4]) > TOL or any(abs(v) > TOL for v in r[5]) or (r[3] or 0.0) != 0.0:
                return "non-instruction line %d carries latency %s / throughput %s / pressure %s" % (r[0], r[2], r[4], r[5])
            if r[0] in touched:
                return "non-instruction line %d takes part in a dependency" % r[0]
    return None


# --------------------------------------------------------------------------- cases
def bodies(ctx, volume, archs):
    """[(isa, arch, name, body lines)]: shipped kernels and generated ones"""
    from harness.props import c11 as C

    rng = ctx.rng
    out = []
    by_isa = {"x86": [a for a in archs if C.isa_of_arch(a) == "x86"], "aarch64": [a for a in archs if C.isa_of_arch(a) == "aarch64"]}
    shipped = {isa: [k for k in C.shipped_kernels(isa) if sum(1 for b in k[1] if b.strip()) <= 40] for isa in by_isa}
    n_ship = max(2, volume // 3)
    for i in range(n_ship):
        isa = "x86" if i % 2 == 0 else "aarch64"
        if not by_isa[isa] or not shipped[isa]:
            continue
        name, body = rng.choice(shipped[isa])
        out.append((isa, rng.choice(by_isa[isa]), name, list(body)))
    for i in range(volume - len(out)):
        isa = "x86" if i % 2 == 0 else "aarch64"
        if not by_isa[isa]:
            continue
        kind = rng.choice(["plain", "mem", "memdep", "chain"])
        if kind == "memdep":
            body, _ = (dgenc.gen_memdep_x86 if isa == "x86" else dgenc.gen_memdep_a64)(rng)
        elif kind == "chain":
            # a guaranteed cycle through three registers plus filler
            if isa == "x86":
                body = ["vaddpd %xmm1, %xmm2, %xmm3", "vmulpd %xmm3, %xmm4, %xmm5", "vaddpd %xmm5, %xmm6, %xmm1",
                        "addq $8, %rax", "cmpq %rbx, %rax", "jne .L1"]
            else:
                body = ["fadd d1, d2, d3", "fmul d3, d4, d5", "fadd d5, d6, d2", "add x1, x1, #8", "cmp x1, x2", "b.ne .L1"]
            body = body[:rng.randrange(3, len(body) + 1)]
        else:
            gen = dgenc.gen_x86_kernel if isa == "x86" else dgenc.gen_a64_kernel
            body = gen(rng, rng.randint(2, 12), mem=(kind != "plain"), npool=rng.choice([2, 3, 4]))
        if not any(b.strip() for b in body):
            continue
        out.append((isa, rng.choice(by_isa[isa]), "generated:" + kind, body))
    return out


def run_pipeline_correspondence(ctx, volume, archs=None):
    """`volume` base kernels x five to six variants through the real CLI path and the driver op `pipe.run`."""
    from harness.props import c11 as C

    archs = archs or (C.QUICK_ARCHS["x86"] + C.QUICK_ARCHS["aarch64"])
    work = os.path.join(ctx.env.work, "pipeline")
    os.makedirs(work, exist_ok=True)
    reqs, cases = [], []
    nfile = 0
    for isa, arch, name, body in bodies(ctx, volume, archs):
        rng = random.Random(ctx.rng.randrange(1 << 62))
        fd = rng.random() < 0.35
        variants = C.build_variants(rng, isa, body, shift=(rng.random() < 0.3))
        if rng.random() < 0.3:
            variants.append(("lines-empty", variants[0][1], "%d" % (len(variants[0][1]) + 7), []))
        group = []
        for vname, lines, spec, idx in variants:
            path = os.path.join(work, "p%d.s" % nfile)
            nfile += 1
            with open(path, "w") as f:
                f.write("\n".join(lines) + "\n")
            res = run_real(arch, path, spec, fd)
            case = {"isa": isa, "arch": arch, "kernel": name, "variant": vname, "file": "\n".join(lines) + "\n", "lines_arg": spec,
                    "flag_deps": fd, "body_nums": [i + 1 for i in idx if lines[i].strip() != ""], "res": res}
            group.append(case)
            cases.append(case)
            if "parsed" not in res:
                case["skip"] = "not parsed: %s" % res.get("error")
                continue
            try:
                fields, semy, raised = encode_file(res)
            except Exception as e:  # noqa
                raise core.InfraError("pipeline encoding failed: %s: %s" % (type(e).__name__, e))
            case["raised"] = raised
            dg = res.get("dg")
            if dg is not None:
                stlf, pidx = dgenc.model_params(dg.model)
                nports = len(dg.model["ports"])
            else:
                from osaca.semantics import MachineModel

                mm = MachineModel(arch=arch)
                stlf, pidx = dgenc.model_params(mm)
                nports = len(mm["ports"])
            mode = ("L", spec) if spec is not None else ("M", isa)
            case["req"] = len(reqs)
            reqs.append(" ".join(["pipe.run", esc("x86" if isa == "x86" else "a64"), esc("1" if fd else "0"), esc(stlf), esc(pidx),
                                  esc("1000"), esc(str(nports)), esc(mode[0]), esc(mode[1]), esc(semy)] + fields))
        for c in group:
            c["group"] = group
    replies = ctx.driver.ask(reqs) if reqs else []
    nb = nv = 0
    dist = {}
    for c in cases:
        res = c["res"]
        dist[c["variant"]] = dist.get(c["variant"], 0) + 1
        ctx.count("pipeline_runs")
        if c.get("skip"):
            ctx.count("pipeline_unparsed")
            continue
        m = parse_reply(replies[c["req"]])
        c["model"] = m
        if "error" in res:
            # the real run raised: the model must say so too (empty kernel, bad --lines, marker scan exception)
            kind = {"empty": "ValueError", "badlines": "ValueError", "raise": "IndexError", "badisa": "ValueError"}
            ctx.count("pipeline_error_runs")
            if isinstance(m, str) and kind.get(m) == res.get("exc"):
                ctx.count("pipeline_error_agreed")
            else:
                base = [x for x in c["group"] if x["variant"] == "body-only"]
                if base and "error" in base[0]["res"]:
                    ctx.count("pipeline_unanalysable")     # the body itself cannot be analysed on this model
                    continue
                nb += 1
                if nb <= 3:
                    ctx.correspondence_break("pipeline", {"arch": c["arch"], "variant": c["variant"], "file": c["file"],
                                                          "lines_arg": c["lines_arg"], "impl": res["error"],
                                                          "model": m if isinstance(m, str) else "an analysis"})
            continue
        im = impl_view(res)
        c["impl"] = im
        ctx.count("pipeline_compared")
        ctx.count("pipeline_edges", len(im["edges"]))
        ctx.count("pipeline_lcd_cycles", len(im["lcd"]))
        ctx.count("pipeline_noise_lines", sum(1 for r in im["rows"] if not r[1]))
        if isinstance(m, str):
            d = "model outcome '%s', the implementation analysed lines %s" % (m, [r[0] for r in im["rows"]][:20])
        elif c.get("raised"):
            ctx.count("pipeline_outside_model_domain")
            d = None
        else:
            d = diff_model_impl(m, im, ctx.counts)
        if d:
            nb += 1
            if nb <= 3:
                ctx.correspondence_break("pipeline", {"arch": c["arch"], "kernel": c["kernel"], "variant": c["variant"],
                                                      "flag_deps": c["flag_deps"], "file": c["file"], "lines_arg": c["lines_arg"],
                                                      "difference": d})
    # ---- oracle on the implementation alone: the variants of one kernel agree up to the renaming
    seen = set()
    for c in cases:
        g = c.get("group")
        if g is None or id(g) in seen:
            continue
        seen.add(id(g))
        base = None
        for x in g:
            rep = {"kind": "pipeline", "arch": x["arch"], "kernel": x["kernel"], "variant": x["variant"], "file": x["file"],
                   "lines_arg": x["lines_arg"], "flag_deps": x["flag_deps"]}
            if "impl" not in x:
                if x["variant"] == "lines-empty" or x.get("skip"):
                    continue
                alone = [y for y in g if y["variant"] == "body-only"]
                if alone and "impl" not in alone[0]:
                    break
                nv += 1
                if nv <= 3:
                    if alone:
                        rep["base_file"], rep["base_lines_arg"] = alone[0]["file"], None
                    ctx.violation("%s on %s: variant '%s' fails with %s although the body alone is analysed"
                                  % (x["kernel"], x["arch"], x["variant"], x["res"].get("error")), rep)
                continue
            im = x["impl"]
            ctx.count("pipeline_oracle_runs")
            nums = [r[0] for r in im["rows"]]
            if nums != x["body_nums"]:
                nv += 1
                if nv <= 3:
                    rep.update(expected=x["body_nums"], observed=nums)
                    ctx.violation("%s on %s, variant '%s': analysed lines %s, body lines %s"
                                  % (x["kernel"], x["arch"], x["variant"], nums[:20], x["body_nums"][:20]), rep)
                continue
            d = noise_carries_nothing(im)
            if d:
                nv += 1
                if nv <= 3:
                    rep.update(difference=d)
                    ctx.violation("%s on %s, variant '%s': %s" % (x["kernel"], x["arch"], x["variant"], d), rep)
                continue
            ov = ordinal_view(im)
            if ov["cptotal"] <= TOL and im["rows"]:
                ctx.count("pipeline_cp_total_zero")      # Props/C11Pipeline.cp_zero_quirk: marks not comparable
            if base is None:
                base = (x, ov)
                continue
            d = diff_ordinal(base[1], ov)
            if d:
                nv += 1
                if nv <= 3:
                    rep.update(base_file=base[0]["file"], base_lines_arg=base[0]["lines_arg"], base_variant=base[0]["variant"],
                               difference=d)
                    ctx.violation("%s on %s (--fixed%s): '%s' differs from '%s': %s"
                                  % (x["kernel"], x["arch"], ", flag deps" if x["flag_deps"] else "", x["variant"],
                                     base[0]["variant"], d), rep)
    ctx.count("pipeline_corr_disagreements", nb)
    ctx.count("pipeline_oracle_failures", nv)
    ctx.cov["distribution"]["pipeline"] = dist
    comp = [c for c in cases if "impl" in c and c["impl"]["lcd"] and len(c["impl"]["edges"]) > 0]
    if comp:
        c = comp[0]
        ctx.sample({"pipeline": {"arch": c["arch"], "variant": c["variant"], "lines_arg": c["lines_arg"], "file": c["file"][:300],
                                 "edges": len(c["impl"]["edges"]), "cp": c["impl"]["cptotal"], "lcd": c["impl"]["lcdfig"]}})
    ctx.log("pipeline: %d runs (%d compared with the model, %d edges, %d cycles, %d noise lines), corr disagreements %d, "
            "metamorphic failures %d" % (len(cases), ctx.counts.get("pipeline_compared", 0), ctx.counts.get("pipeline_edges", 0),
                                         ctx.counts.get("pipeline_lcd_cycles", 0), ctx.counts.get("pipeline_noise_lines", 0), nb, nv))


def replay_pipeline(ctx, rep):
    """re-run the file(s) of a replay of kind 'pipeline'; exit code 0 iff the failure is gone"""
    work = os.path.join(ctx.env.work, "pipeline")
    os.makedirs(work, exist_ok=True)
    views = []
    for i, (text, spec) in enumerate([(rep["file"], rep.get("lines_arg"))] +
                                     ([(rep["base_file"], rep.get("base_lines_arg"))] if rep.get("base_file") else [])):
        path = os.path.join(work, "r%d.s" % i)
        with open(path, "w") as f:
            f.write(text)
        res = run_real(rep["arch"], path, spec, rep.get("flag_deps", False))
        if "error" in res or "kernel" not in res:
            print("run %d -> %s" % (i, res.get("error")))
            views.append(None)
            continue
        im = impl_view(res)
        print("run %d -> lines %s CP %s LCD %s" % (i, [r[0] for r in im["rows"]][:20], im["cptotal"], im["lcdfig"]))
        views.append(im)
    if views[0] is None:
        return 1
    if rep.get("expected") is not None:
        return 0 if [r[0] for r in views[0]["rows"]] == rep["expected"] else 1
    d = noise_carries_nothing(views[0])
    if d:
        print(d)
        return 1
    if len(views) == 2 and views[1] is not None:
        d = diff_ordinal(ordinal_view(views[1]), ordinal_view(views[0]))
        print("difference:", d)
        return 0 if d is None else 1
    return 0
