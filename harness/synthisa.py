"""Synthetic ISA semantic database + latency model for C03 (quantifier part (a)): mnemonics with arbitrary
per-operand source/destination roles, hidden flag operands and zero idioms, appended to the private copy of
isa/x86.yml; the reference read-after-write relation is computed from the generated roles only."""
import os

from harness import synthmodel as S

FLAGS = ["CF", "ZF", "OF"]
FAMS = [["rax", "eax"], ["rbx", "ebx"], ["rcx", "ecx"], ["rdx", "edx"], ["rsi", "esi"], ["r8", "r8d"], ["r9", "r9d"]]


def gen_db(rng, n=10):
    forms = []
    for i in range(n):
        nops = rng.choice([1, 2, 2, 3])
        roles = []
        for _ in range(nops):
            roles.append(rng.choice([(True, False), (False, True), (True, True), (True, False)]))
        if not any(d for _, d in roles) and rng.random() < 0.5:
            roles[-1] = (roles[-1][0], True)
        hidden = []
        for f in rng.sample(FLAGS, rng.choice([0, 0, 1, 2])):
            hidden.append((f,) + rng.choice([(True, False), (False, True), (True, True)]))
        brk = nops >= 2 and rng.random() < 0.2
        forms.append({"name": "yy" + S.mnemonic(i)[2:], "roles": roles, "hidden": hidden, "brk": brk,
                      "lat": rng.choice([1, 3, 4.0, 0.5])})
    return forms


def isa_yaml(forms):
    out = []
    for f in forms:
        out.append("    - name: %s" % f["name"])
        out.append("      operands:")
        for s, d in f["roles"]:
            out += ["        - class: \"register\"", "          name: \"gpr\"", "          source: %s" % str(s).lower(),
                    "          destination: %s" % str(d).lower()]
        if f["hidden"]:
            out.append("      hidden_operands:")
            for n, s, d in f["hidden"]:
                out += ["        - class: \"flag\"", "          name: \"%s\"" % n, "          source: %s" % str(s).lower(),
                        "          destination: %s" % str(d).lower()]
        if f["brk"]:
            out.append("      breaks_dependency_on_equal_operands: true")
    return "\n".join(out) + "\n"


def install(env_data_dir, forms):
    p = os.path.join(env_data_dir, "isa", "x86.yml")
    with open(p, "a") as f:
        f.write("\n" + isa_yaml(forms))


def arch_yaml(forms):
    """synthetic latency model: every synthetic mnemonic with 1-3 gpr operands"""
    head = S.model_yaml({"ports": ["0", "1"], "forms": []}, arch_code="SYNISA")
    out = [head.rstrip("\n")]
    for f in forms:
        out += ["- name: %s" % f["name"], "  operands:"]
        for _ in f["roles"]:
            out += ["  - class: register", "    name: gpr"]
        out += ["  latency: %r" % f["lat"], "  port_pressure: [[1, '01']]", "  throughput: 0.5", "  uops: 1"]
    return "\n".join(out) + "\n"


def gen_kernel(rng, forms, n, npool=3):
    """lines + roles[i] = (reads, writes) over family ids and flag names"""
    pool = rng.sample(range(len(FAMS)), npool)
    lines, roles = [], []
    for _ in range(n):
        f = rng.choice(forms)
        regs = [rng.choice(pool) for _ in f["roles"]]
        if f["brk"] and rng.random() < 0.5:
            regs = [regs[0]] * len(regs)
        width = [rng.randrange(2) for _ in regs]
        if f["brk"] and len(set(regs)) == 1:
            width = [width[0]] * len(regs)       # the idiom needs textually equal operands
        lines.append("%s %s" % (f["name"], ", ".join("%" + FAMS[r][w] for r, w in zip(regs, width))))
        reads, writes = set(), set()
        zero = f["brk"] and len(regs) >= 2 and len(set(zip(regs, width))) == 1
        for r, (s, d) in zip(regs, f["roles"]):
            if zero:
                writes.add(("g", r))
                continue
            if s:
                reads.add(("g", r))
            if d:
                writes.add(("g", r))
        for n_, s, d in f["hidden"]:
            if zero:
                writes.add(n_)        # hidden operands of a dependency-breaking idiom are destinations only
                continue
            if s:
                reads.add(n_)
            if d:
                writes.add(n_)
        roles.append((reads, writes))
    return lines, roles


def reference_raw(roles, flags):
    out = set()
    for i, (_, wi) in enumerate(roles):
        for r in wi:
            if isinstance(r, str) and not flags:
                continue
            for j in range(i + 1, len(roles)):
                rj, wj = roles[j]
                if r in rj:
                    out.add((i, j))
                if r in wj:
                    break
    return out
