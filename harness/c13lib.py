"""Helpers of the C13 check: reading analysis values off the implementation's objects, the line
protocol of the C13 driver ops, the oracle (report text parsed back vs machine-readable output),
generators of synthetic analyses and of assembly files."""
import math
import re
from fractions import Fraction

from harness import core
from harness.core import esc

UNKNOWN_FLAG = "tp_unknown"


# --------------------------------------------------------------------------- domain of the model
def positional(x):
    """double whose repr is positional and which is not -0.0 (the model's number domain)"""
    if isinstance(x, bool) or not isinstance(x, (int, float)):
        return False
    x = float(x)
    if math.isnan(x) or math.isinf(x):
        return False
    if x == 0.0:
        return math.copysign(1.0, x) > 0
    return 1e-4 <= abs(x) < 1e16


def ascii_line(s):
    return isinstance(s, str) and s.isascii() and "\n" not in s and "\r" not in s


# --------------------------------------------------------------------------- reading the objects
def extract(ports, kernel, cp_kernel, dep_dict, ignore_unknown, tp_sum):
    """analysis values as the model takes them; `problems` lists reasons why the input is outside the
    model's domain (then only the oracle is applied)"""
    problems = []
    rows = []
    if not kernel or not ports:
        problems.append("empty")
    for p in ports:
        if not (isinstance(p, str) and p.isascii() and len(p) <= 6 and not re.search(r"[ |\-\n]", p)):
            problems.append("port-name:%r" % (p,))
    if tp_sum and len(tp_sum) != len(ports):
        problems.append("sum-length")
    for ins in kernel:
        used = set()
        for u in ins.port_uops:
            used.update(list(u[1]))
        press = list(ins.port_pressure)
        if len(press) != len(ports):
            problems.append("pressure-length")
        for v in press:
            if not positional(v):
                problems.append("number:%r" % (v,))
        if not ascii_line(ins.line):
            problems.append("line-text")
        rows.append({
            "line": ins.line_number, "mn": ins.mnemonic is not None, "flags": [str(f) for f in ins.flags],
            "text": ins.line, "used": [p in used for p in ports], "press": press,
        })
    cp = []
    for x in cp_kernel:
        v = float(x.latency_cp)
        if not positional(v):
            problems.append("cp:%r" % v)
        cp.append((x.line_number, repr(v)))
    deps = []
    for key, d in dep_dict.items():
        lat = d["latency"]
        if not positional(lat):
            problems.append("lcd:%r" % (lat,))
        if not re.fullmatch(r"\d+(-\d+)*", key):
            problems.append("lcd-key:%r" % key)
        if not ascii_line(d["root"].line):
            problems.append("line-text")
        mem = []
        for node, l in d["dependencies"]:
            if not positional(float(l)):
                problems.append("lcd-member:%r" % (l,))
            mem.append((node.line_number, repr(float(l))))
        deps.append({"key": key, "lat": lat, "repr": str(lat), "root": d["root"].line, "members": mem})
    for v in tp_sum:
        if not positional(v):
            problems.append("sum:%r" % (v,))
    cp_sum = sum([x.latency_cp for x in cp_kernel])
    return {"ports": list(ports), "rows": rows, "cp": cp, "deps": deps, "ignore": bool(ignore_unknown),
            "tp": list(tp_sum), "cpsum": str(cp_sum), "problems": problems}


def enc_analysis(a):
    f = [esc("1" if a["ignore"] else "0"), esc(str(len(a["ports"])))]
    f += [esc(p) for p in a["ports"]]
    f.append(esc(str(len(a["rows"]))))
    for r in a["rows"]:
        f += [esc(str(r["line"])), esc("1" if r["mn"] else "0"), esc(str(len(r["flags"])))]
        f += [esc(x) for x in r["flags"]]
        f += [esc(r["text"]), esc("".join("1" if u else "0" for u in r["used"]))]
        f += [esc(core.frac(v)) for v in r["press"]]
    f.append(esc(str(len(a["cp"]))))
    for ln, rp in a["cp"]:
        f += [esc(str(ln)), esc(rp)]
    f.append(esc(str(len(a["deps"]))))
    for d in a["deps"]:
        f += [esc(d["key"]), esc(core.frac(d["lat"])), esc(d["repr"]), esc(d["root"]), esc(str(len(d["members"])))]
        for ln, rp in d["members"]:
            f += [esc(str(ln)), esc(rp)]
    f.append(esc(str(len(a["tp"]))))
    f += [esc(core.frac(v)) for v in a["tp"]]
    f.append(esc(a["cpsum"]))
    return " ".join(f)


# --------------------------------------------------------------------------- driver replies
class Cur:
    def __init__(self, s):
        self.t = s.split(" ")
        self.i = 0

    def tok(self):
        v = self.t[self.i]
        self.i += 1
        return v

    def nat(self):
        return int(self.tok())

    def txt(self):
        return core.unesc(self.tok())

    def done(self):
        return self.i == len(self.t)


def dec_shown(tok):
    if tok == "_":
        return None
    m = re.fullmatch(r"([+-])(\d+)e(\d+)", tok)
    return (m.group(1) == "-", int(m.group(2)), int(m.group(3)))


def dec_view(reply):
    """reply of c13view / c13parse -> dict or None"""
    if not reply.startswith("ok "):
        return None
    c = Cur(reply)
    c.tok()
    cols = []
    for _ in range(c.nat()):
        cols.append((c.txt(), c.nat(), c.nat()))
    rows = []
    for _ in range(c.nat()):
        line = c.nat()
        cells = [dec_shown(c.tok()) for _ in range(c.nat())]
        rows.append({"line": line, "cells": cells, "cp": c.txt(), "lcd": c.txt(), "flags": c.txt(), "text": c.txt()})
    kind = c.tok()
    if kind == "missing":
        tail = ("missing", c.nat())
    else:
        sums = [dec_shown(c.tok()) for _ in range(c.nat())]
        tail = ("summary", sums, c.txt(), c.txt())
    assert c.done(), reply[-200:]
    return {"cols": cols, "rows": rows, "tail": tail}


def dec_lcd(reply):
    if not reply.startswith("ok "):
        return None
    c = Cur(reply)
    c.tok()
    out = []
    for _ in range(c.nat()):
        line = c.nat()
        lat = dec_shown(c.tok())
        mem = [c.nat() for _ in range(c.nat())]
        out.append((line, lat, mem))
    assert c.done()
    return out


def dec_dict(reply):
    c = Cur(reply)
    ws = [c.txt() for _ in range(c.nat())]
    lcds = []
    for _ in range(c.nat()):
        t = c.tok()
        lcds.append(None if t == "_" else core.unesc(t))
    sums = [Fraction(c.tok()) for _ in range(c.nat())]
    cps, lcdsum = c.txt(), c.txt()
    assert c.done()
    return {"warnings": ws, "lcd": lcds, "sums": sums, "cpsum": cps, "lcdsum": lcdsum}


def shown_value(s):
    neg, mant, decs = s
    v = Fraction(mant, 10 ** decs)
    return -v if neg else v


def shown_ok_py(s, x):
    """Python twin of Spec.shownOk (used only to pre-filter; the verdict comes from the driver)"""
    neg, mant, decs = s
    fx = Fraction(x)
    ok = abs(abs(fx) * 10 ** decs - mant) <= Fraction(1, 2)
    return ok and (mant == 0 or neg == (fx < 0))


def num_text_eq(text, value):
    """a `str(number)` cell shows exactly `value`"""
    try:
        return float(text) == float(value)
    except ValueError:
        return False


# --------------------------------------------------------------------------- the oracle
class Oracle:
    """Collects `c13shown` requests; `failures` are (what, detail) pairs."""

    def __init__(self):
        self.failures = []
        self.shown_reqs = []  # (request line, what, detail)
        self.n_cells = 0
        self.n_nonblank = 0

    def fail(self, what, detail):
        self.failures.append((what, detail))

    def shown(self, s, x, what, detail):
        self.n_nonblank += 1
        neg, mant, decs = s
        self.shown_reqs.append(("c13shown %s %s %s %s" % (esc("1" if neg else "0"), esc(str(mant)), esc(str(decs)),
                                                        esc(core.frac(x))), what, detail))

    def resolve(self, driver):
        if not self.shown_reqs:
            return
        rep = driver.ask([r for r, _, _ in self.shown_reqs])
        for (req, what, detail), ans in zip(self.shown_reqs, rep):
            if ans != "1":
                self.fail(what, detail)
        self.shown_reqs = []


def oracle_table(orc, view, D, ignore_unknown):
    """view: parse of the real text (dec_view); D: machine-readable output (dict)."""
    if view is None:
        orc.fail("report-not-parsable", "the combined table of the report cannot be read back")
        return
    ports = list(D["Target"]["Ports"])
    names = [c[0] for c in view["cols"]]
    if names != [str(p) for p in ports]:
        orc.fail("port-columns", {"shown": names, "dict": ports})
        return
    K = D["Kernel"]
    if len(view["rows"]) != len(K):
        orc.fail("row-count", {"shown": len(view["rows"]), "dict": len(K)})
        return
    n_unknown = 0
    for rv, k in zip(view["rows"], K):
        ln = k["LineNumber"]
        if rv["line"] != ln:
            orc.fail("line-number", {"shown": rv["line"], "dict": ln})
            continue
        if len(rv["cells"]) != len(ports):
            orc.fail("cell-count", {"line": ln})
            continue
        used = set()
        for u in k["PortUops"]:
            used.update(u["Ports"])
        for p, cell in zip(ports, rv["cells"]):
            v = k["PortPressure"][p]
            orc.n_cells += 1
            if cell is None:
                # a blank cell stands for zero (whether an unused zero is blank or "0.00" is layout, not content)
                if float(v) != 0.0:
                    orc.fail("blank-cell-nonzero", {"line": ln, "port": p, "dict": v})
            else:
                orc.shown(cell, v, "pressure-cell", {"line": ln, "port": p, "shown": str(shown_value(cell)),
                                                     "decimals": cell[2], "dict": v})
        if rv["cp"]:
            if not num_text_eq(rv["cp"], k["LatencyCP"]):
                orc.fail("cp-cell", {"line": ln, "shown": rv["cp"], "dict": k["LatencyCP"]})
        if rv["lcd"]:
            if not num_text_eq(rv["lcd"], k["LatencyLCD"]):
                orc.fail("lcd-cell", {"line": ln, "shown": rv["lcd"], "dict": k["LatencyLCD"]})
        elif float(k["LatencyLCD"]) != 0.0:
            orc.fail("lcd-cell-missing", {"line": ln, "dict": k["LatencyLCD"]})
        unknown = UNKNOWN_FLAG in k["Flags"]
        if unknown:
            n_unknown += 1
        if k["Instruction"] is not None and (("X" in rv["flags"]) != unknown):
            orc.fail("unknown-mark", {"line": ln, "flags-shown": rv["flags"], "dict": k["Flags"]})
        if re.sub(r"\s+", " ", rv["text"]).strip() != k["Line"]:
            orc.fail("line-text", {"line": ln, "shown": rv["text"], "dict": k["Line"]})
    tail = view["tail"]
    if n_unknown and not ignore_unknown:
        if tail[0] != "missing":
            orc.fail("totals-despite-unknown", {"unknown": n_unknown})
        elif tail[1] != n_unknown:
            orc.fail("missing-count", {"shown": tail[1], "dict": n_unknown})
    else:
        if tail[0] != "summary":
            orc.fail("totals-missing", {"unknown": n_unknown, "ignore_unknown": ignore_unknown})
        else:
            S = D["Summary"]
            nz = [(p, S["PortPressure"][p]) for p in ports if float(S["PortPressure"][p]) != 0.0]
            if len(nz) != len(tail[1]):
                orc.fail("totals-count", {"shown": [str(shown_value(s)) for s in tail[1]], "dict": nz})
            else:
                for (p, v), s in zip(nz, tail[1]):
                    orc.shown(s, v, "total-cell", {"port": p, "shown": str(shown_value(s)), "decimals": s[2], "dict": v})
            if not num_text_eq(tail[2], S["CriticalPath"]):
                orc.fail("cp-total", {"shown": tail[2], "dict": S["CriticalPath"]})
            if not num_text_eq(tail[3], S["LCD"]):
                orc.fail("lcd-total", {"shown": tail[3], "dict": S["LCD"]})
    # totals of the machine-readable output = column sums of its own lines (2 decimals, float noise)
    cols = {p: 0.0 for p in ports}
    any_tp = False
    for k in K:
        if float(k["Throughput"]) != 0.0:
            any_tp = True
            for p in ports:
                cols[p] += k["PortPressure"][p]
    if any_tp:
        for p in ports:
            if abs(cols[p] - D["Summary"]["PortPressure"][p]) > 0.005 + 1e-9 * max(1.0, abs(cols[p])):
                orc.fail("dict-total-vs-lines", {"port": p, "sum": cols[p], "dict": D["Summary"]["PortPressure"][p]})


def oracle_lcd(orc, lcd, dep_dict, D):
    """lcd: parse of the LCD list of the real text; dep_dict: get_loopcarried_dependencies()"""
    if lcd is None:
        orc.fail("lcd-list-not-parsable", "")
        return
    keys = sorted(dep_dict.keys())
    if len(lcd) != len(keys):
        orc.fail("lcd-list-count", {"shown": len(lcd), "dependencies": len(keys)})
        return
    for (line, lat, mem), key in zip(lcd, keys):
        d = dep_dict[key]
        want = [node.line_number for node, _ in d["dependencies"]]
        if mem != want:
            orc.fail("lcd-list-members", {"key": key, "shown": mem, "dependencies": want})
        if key.split("-")[0].isdigit() and line != int(key.split("-")[0]):
            orc.fail("lcd-list-line", {"key": key, "shown": line})
        orc.shown(lat, d["latency"], "lcd-list-latency", {"key": key, "shown": str(shown_value(lat)), "value": d["latency"]})
    mx = max([float(d["latency"]) for d in dep_dict.values()], default=0.0)
    if float(D["Summary"]["LCD"]) != mx:
        orc.fail("lcd-total-not-maximum", {"dict": D["Summary"]["LCD"], "max": mx})


def oracle_warnings(orc, warn_reply, D, expect_arch, expect_len, expect_lcd, n_unknown):
    a, l, c = [x == "1" for x in warn_reply.split(" ")]
    if a != expect_arch:
        orc.fail("arch-warning", {"shown": a, "expected": expect_arch})
    if l != expect_len:
        orc.fail("length-warning", {"shown": l, "expected": expect_len})
    if c != expect_lcd:
        orc.fail("lcd-warning", {"shown": c, "expected": expect_lcd})
    W = list(D["Warnings"])
    want = (["ArchWarning"] if expect_arch else []) + (["LengthWarning"] if expect_len else []) + \
           (["LCDWarning"] if expect_lcd else []) + (["UnknownInstrWarning"] if n_unknown else [])
    if sorted(W) != sorted(want):
        orc.fail("dict-warnings", {"dict": W, "expected": want})


# --------------------------------------------------------------------------- synthetic analyses (level 1)
class FakeModel:
    def __init__(self, ports):
        self._ports = list(ports)

    def get_ports(self):
        return self._ports


class FakeDG:
    def __init__(self, cp, deps):
        self._cp, self._deps = cp, deps
        self.timed_out = False

    def get_critical_path(self):
        return self._cp

    def get_loopcarried_dependencies(self):
        return self._deps


def make_frontend(Frontend, ports, arch, filename):
    fe = Frontend.__new__(Frontend)
    fe._filename = filename
    fe._arch = arch
    fe._machine_model = FakeModel(ports)
    return fe


PORT_POOL = ["0", "0DV", "1", "1DV", "2", "2D", "3", "3D", "3DV", "4", "4DV", "5", "5D", "6", "6DV", "7", "8", "8D", "9",
             "9D", "10", "10D", "11", "11DV", "12", "13", "14", "15", "16", "DV", "DV0", "DV1", "ST", "A", "B7", "P23", "x"]

LINES = ["vaddpd %ymm0, %ymm1, %ymm2", "\tvfmadd231pd\t(%rax,%rcx,8), %ymm3, %ymm4", "  add x0, x1, #16   ", ".L10:",
         "# a comment | with a bar", "ldr q1, [x2], #16 // post | [1, 2]", "fmla v0.2d, v1.2d, v2.2d", "jne .L10",
         "mov\t%rax,\t%rbx\t# tabs", "x", "str d0, [x1, x2, lsl #3]", ".align 4", "vdivpd %zmm1, %zmm2, %zmm3  "]


def gen_value(rng, big):
    """a port pressure: mostly small fractions; sometimes >= 10, >= 100, ties, negatives, long fractions"""
    r = rng.random()
    if r < 0.30:
        return 0.0
    if r < 0.55:
        return rng.choice([0.25, 0.5, 0.33, 1.0, 0.2, 0.17, 0.5, 2.0, 1.5, 0.66, 0.75, 0.125, 0.375, 4.0])
    if r < 0.65:
        return round(rng.uniform(0, 4), 2)
    if r < 0.72:
        return rng.choice([1 / 3, 2 / 3, 1 / 6, 0.005, 0.015, 0.025, 0.125, 0.375, 2.675, 1.005, 0.045, 9.995, 9.999,
                           9.9951, 0.994999, 0.995, 99.995])
    if r < 0.80:
        return rng.uniform(0, 12)
    if r < 0.86 and big:
        return round(rng.uniform(10, 130), rng.choice([0, 1, 2, 3]))
    if r < 0.90 and big:
        return rng.choice([10.0, 99.99, 100.0, 999.5, 1000.25, 12345.678, 99.995, 9.995, 99.5, 100.5])
    if r < 0.94:
        return -rng.choice([0.01, 0.02, 0.25, 1.5, 0.005, 0.0049, 12.5])
    return rng.choice([0.0, 1e-4, 0.00011, 0.0049, 0.0051, 0.5, 1.0])


def gen_latency(rng):
    r = rng.random()
    if r < 0.5:
        return float(rng.choice([0, 1, 2, 3, 4, 5, 6, 8, 10, 12, 20, 100, 130]))
    if r < 0.7:
        return rng.choice([0.5, 1.5, 3.3, 0.1 + 0.2, 4.25, 0.33, 2.0 / 3.0])
    if r < 0.8:
        return rng.choice([1, 2, 4, 7])  # int
    return round(rng.uniform(0, 30), rng.choice([0, 1, 2]))


def synth_case(rng, big=True):
    """a random analysis as a JSON-able spec: instruction forms, critical path, LCD dict, options"""
    nports = rng.choice([1, 2, 3, 5, 8, 11, 14, 20])
    ports = rng.sample(PORT_POOL, min(nports, len(PORT_POOL)))
    if rng.random() < 0.7:
        ports.sort(key=lambda p: (int(re.search(r"\d+", p).group()) if re.search(r"\d+", p) else 99, p))
    nrows = rng.choice([1, 2, 3, 5, 8, 13, 30])
    start = rng.choice([1, 1, 7, 95, 990, 9995, 12345])
    kernel = []
    ln = start
    mode = rng.choice(["small", "small", "mixed", "big"]) if big else "small"
    for _ in range(nrows):
        kind = rng.random()
        text = rng.choice(LINES)
        press = []
        for _p in ports:
            press.append(0.0 if kind < 0.15 and rng.random() < 0.9 else
                         gen_value(rng, mode != "small" and (mode == "big" or rng.random() < 0.3)))
        uops = []
        for i, p in enumerate(ports):
            if (press[i] != 0.0 and rng.random() < 0.95) or rng.random() < 0.05:
                uops.append([1, [p] if rng.random() < 0.6 else [p] + rng.sample(ports, min(2, len(ports)))])
        fl = []
        if kind >= 0.15:
            r = rng.random()
            if r < 0.09:
                fl += ["tp_unknown", "lt_unknown"]
            elif r < 0.13:
                fl.append("tp_unknown")
            elif r < 0.17:
                fl.append("lt_unknown")
            if rng.random() < 0.1:
                fl.append("not_bound")
            if rng.random() < 0.08:
                fl.append("hidden_load")
            if rng.random() < 0.2:
                fl.append("performs_load")
        kernel.append({
            "line_number": ln, "line": text, "mnemonic": None if kind < 0.15 else text.split()[0],
            "comment": "c" if kind < 0.05 else None, "label": "l" if 0.05 <= kind < 0.15 else None,
            "press": press, "uops": uops, "flags": fl,
            "throughput": 0.0 if all(v == 0 for v in press) and rng.random() < 0.8 else max(press + [0.25]),
            "latency": gen_latency(rng), "latency_cp": 0,
        })
        ln += rng.choice([1, 1, 1, 2, 5])
    cp = []
    for i, k in enumerate(kernel):
        if rng.random() < 0.3:
            k["latency_cp"] = gen_latency(rng)
            cp.append(i)
    deps = []
    for _ in range(rng.choice([0, 0, 1, 2, 3, 6])):
        mem = sorted(rng.sample(range(len(kernel)), rng.randint(1, min(4, len(kernel)))))
        lats = [gen_latency(rng) for _m in mem]
        key = "-".join(str(kernel[m]["line_number"]) for m in mem)
        lat = 0.0
        for l in lats:
            lat += l
        if rng.random() < 0.4 and deps:
            lat = deps[0]["latency"]  # equal maxima
        if key not in [d["key"] for d in deps]:
            deps.append({"key": key, "members": [[m, l] for m, l in zip(mem, lats)], "latency": lat})
    if rng.random() < 0.5:
        deps.sort(key=lambda d: -d["latency"])
    opts = {"ignore_unknown": rng.random() < 0.4, "arch_warning": rng.random() < 0.5,
            "length_warning": rng.random() < 0.3, "lcd_warning": rng.random() < 0.3}
    return {"level": 1, "ports": ports, "kernel": kernel, "cp": cp, "deps": deps, "opts": opts}


def build_case(spec, InstructionForm):
    """instruction forms, critical path and LCD dict of a level-1 spec"""
    kernel = []
    for k in spec["kernel"]:
        f = InstructionForm(mnemonic=k["mnemonic"], line=k["line"], line_number=k["line_number"],
                            comment_id=k.get("comment"), label_id=k.get("label"))
        f.port_pressure = list(k["press"])
        f.port_uops = [(u[0], list(u[1])) for u in k["uops"]]
        f.throughput = k["throughput"]
        f.latency = k["latency"]
        f.latency_wo_load = k["latency"]
        f.latency_cp = k["latency_cp"]
        f.latency_lcd = 0
        f.flags = list(k["flags"])
        kernel.append(f)
    cp = [kernel[i] for i in spec["cp"]]
    deps = {}
    for d in spec["deps"]:
        mem = [(kernel[m], l) for m, l in d["members"]]
        deps[d["key"]] = {"root": mem[0][0], "dependencies": mem, "latency": d["latency"]}
    return kernel, cp, deps


# --------------------------------------------------------------------------- assembly files (level 2)
X86_POOL = [
    "vmovapd (%r15,%rax), %ymm0", "vmovapd (%r12,%rax), %ymm3", "addl $1, %ecx", "vfmadd132pd 0(%r13,%rax), %ymm3, %ymm0",
    "vmovapd %ymm0, (%r14,%rax)", "addq $32, %rax", "cmpl %ecx, %r10d", "vaddpd %ymm1, %ymm2, %ymm4",
    "vmulpd %ymm5, %ymm6, %ymm7", "vdivpd %ymm8, %ymm9, %ymm10", "vsqrtpd %ymm11, %ymm12", "movq %rdx, %rsi",
    "leaq 8(%rdi), %r8", "vxorpd %xmm13, %xmm13, %xmm13", "incq %r9", "subq $8, %r11",
]
A64_POOL = [
    "ldr q23, [x20, x10]", "ldr q24, [x21, x10]", "add x0, x10, 16", "fmla v23.2d, v3.2d, v24.2d", "str q23, [x19, x10]",
    "add x10, x10, 128", "cmp x24, x10", "fadd v1.2d, v2.2d, v4.2d", "fmul v5.2d, v6.2d, v7.2d", "fdiv v8.2d, v9.2d, v11.2d",
    "fsqrt v12.2d, v13.2d", "mov x3, x4", "sub x5, x5, 8", "ldp d14, d15, [x6]", "add x7, x7, x8",
]
UNKNOWN = {"x86": ["foobarpd %ymm0, %ymm1, %ymm2", "vfrobq %rax, %rbx"], "aarch64": ["foobar v0.2d, v1.2d", "frobx x1, x2, x3"]}
MARK = {"x86": ("# OSACA-BEGIN\n", "# OSACA-END\n"), "aarch64": ("// OSACA-BEGIN\n", "// OSACA-END\n")}


def gen_asm(rng, isa, n, unknown=0, marked=True, comments=True):
    pool = X86_POOL if isa == "x86" else A64_POOL
    body = [".L10:" if isa == "x86" else ".L17:"]
    for _ in range(n):
        body.append("\t" + rng.choice(pool).replace(" ", "\t", 1))
    for _ in range(unknown):
        body.insert(rng.randint(1, len(body)), "\t" + rng.choice(UNKNOWN[isa]))
    if comments:
        body.insert(rng.randint(1, len(body)), ("# " if isa == "x86" else "// ") + "a comment line")
    body.append("\tjne .L10" if isa == "x86" else "\tbne .L17")
    text = "\n".join(body) + "\n"
    if marked:
        text = "\t.text\n" + MARK[isa][0] + text + MARK[isa][1] + "\tret\n"
    return text
