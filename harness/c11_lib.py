"""C11 helpers: generators of assembly files with known layout, marker styles, decoys, `--lines`
strings; abstraction of the real parser's InstructionForm to the driver's line encoding.

The marker texts written here are the *convention* (IACA byte markers / OSACA comment markers), typed
in by hand: they do not come from OSACA's constants.  The harness cross-checks them against the Lean
Spec (`c11.spec.marker`).
"""
import re

CONV = {
    "x86": {"movs": ["mov", "movl"], "reg": "ebx", "vals": (111, 222), "nop": [100, 103, 144]},
    "aarch64": {"movs": ["mov"], "reg": "x1", "vals": (111, 222), "nop": [213, 3, 32, 31]},
}
COMMENT_BEGIN, COMMENT_END = "OSACA-BEGIN", "OSACA-END"

# --------------------------------------------------------------------------- line pools
POOL = {
    "x86": {
        "ins": [
            "vmovapd (%r15,%rax), %ymm0", "addl $1, %ecx", "vfmadd132pd 0(%r13,%rax), %ymm3, %ymm0",
            "vmovapd %ymm0, (%r14,%rax)", "addq $32, %rax", "cmpl %ecx, %r10d", "ja .L10", "nop",
            "xorl %eax, %eax", "vaddpd %ymm1, %ymm2, %ymm3", "leaq 8(%rax,%rbx,4), %rcx", "movl %ebx, %eax",
            "incq %rax", "movl $5, %ecx", "movq %rax, %rbx", "\tvmulpd\t%ymm4, %ymm5, %ymm6   # trailing comment",
            "subq $-128, %rax", "jne .L19", "vmovups %xmm12, 0(%rbp,%rax)", "movl $111, %r9d", "mov %ebx, %ecx",
            "addl $1, %eax # OSACA-BEGIN", "addl $2, %eax # OSACA-END",
        ],
        "comment": ["# foo bar", "// icc style comment", "#", "# OSACA-BEGINX", "# osaca-begin", "#  OSACA-BEGIN now",
                    "# OSACA-END.", "# XOSACA-END", "#OSACA START MARKER", "  # pad  ", "# OSACA", "# BEGIN", "# OSACA - BEGIN"],
        "label": [".L10:", "foo:", "1:", ".L5: # a label with comment", "..B1.40:   # Preds ..B1.40"],
        "directive": [".p2align 4,,10", ".text", ".long 100", ".cfi_startproc", ".align 16 # x", ".byte 1,2", ".byte 0x90",
                      ".byte 100,103,144", ".globl main", ".byte 100", ".byte 144"],
        "blank": ["", "   ", "\t", " \t "],
        # (lines, note): look-alikes that are NOT markers; each unit is self-contained (its last line may be
        # followed by anything)
        "decoy": [
            (["movl $112, %ebx", ".byte 100,103,144"], "other value"),
            (["movl $110, %ebx", ".byte 100", ".byte 103", ".byte 144"], "other value"),
            (["movl $221, %ebx", ".byte 100,103,144"], "other value"),
            (["movl $223, %ebx", ".byte 100,103,144"], "other value"),
            (["movl $-111, %ebx", ".byte 100,103,144"], "other value"),
            (["movl $0, %ebx", ".byte 100,103,144"], "other value"),
            (["movl $111, %eax", ".byte 100,103,144"], "other register"),
            (["movl $222, %ecx", ".byte 100,103,144"], "other register"),
            (["mov $111, %ebp", ".byte 100,103,144"], "other register"),
            (["movl $111, %ebx", "addl $1, %ecx"], "not followed by the byte directive"),
            (["movl $222, %ebx", "addl $1, %ecx"], "not followed by the byte directive"),
            (["movl $111, %ebx", ".L77:"], "not followed by the byte directive"),
            (["movl $222, %ebx", "# just a comment"], "not followed by the byte directive"),
            (["movl $111, %ebx", ".p2align 4", "nop"], "followed by another directive"),
            (["movl $222, %ebx", ".text", "nop"], "followed by another directive"),
            (["movl $111, %ebx", ".byte 100,103,145", "nop"], "other bytes"),
            (["movl $222, %ebx", ".byte 100,104,144", "nop"], "other bytes"),
            (["movl $111, %ebx", ".byte 101", ".byte 103", ".byte 144", "nop"], "other bytes"),
            (["movl $111, %ebx", ".byte 144,103,100", "nop"], "other bytes"),
            (["movl $111, %ebx", ".byte 100,103", "nop"], "too few bytes"),
            (["movl $222, %ebx", ".byte 100", "nop"], "too few bytes"),
            (["movl $111, (%ebx)", ".byte 100,103,144"], "memory destination"),
            (["movq $111, %rbx", ".byte 100,103,144"], "other mnemonic and register"),
            (["addl $111, %ebx", ".byte 100,103,144"], "other mnemonic"),
            (["movl %ebx, %eax", ".byte 100,103,144"], "no immediate"),
        ],
    },
    "aarch64": {
        "ins": [
            "ldp q4, q5, [x9, #-32]", "fmul v4.2d, v4.2d, v16.2d", "add x10, x10, #64", "adds x12, x12, #1",
            "b.ne .LBB0_32", "mov x12, xzr", "ldr x0, [sp, #16]", "fadd v0.2d, v0.2d, v4.2d", "stp q0, q1, [x10, #-32]",
            "mov x3, x2", "mov w3, #7", "\tfmov\ts0, -1.0e+0   // trailing comment", "ldp q6, q7, [x9], #64",
            "ldp q16, q17, [x11, #-32]!", "mov x11, #111", "add x1, x1, #1 // OSACA-BEGIN", "add x1, x1, #2 // OSACA-END",
        ],
        "comment": ["// foo bar", "//", "// OSACA-BEGINX", "// osaca-begin", "//  OSACA-BEGIN now", "// OSACA-END.",
                    "// XOSACA-END", "//OSACA START MARKER", "  // pad  ", "// OSACA", "// END"],
        "label": [".LBB0_32:", "foo:", ".L5: // a label with comment"],
        "directive": [".p2align 6", ".text", ".long 100", ".cfi_startproc", ".byte 1,2", ".byte 0x1f", ".byte 213,3,32,31",
                      ".globl main", ".byte 213", ".byte 31"],
        "blank": ["", "   ", "\t", " \t "],
        "decoy": [
            (["mov x1, #112", ".byte 213,3,32,31"], "other value"),
            (["mov x1, #110", ".byte 213,3", ".byte 32,31"], "other value"),
            (["mov x1, #221", ".byte 213,3,32,31"], "other value"),
            (["mov x1, #223", ".byte 213,3,32,31"], "other value"),
            (["mov x1, #-111", ".byte 213,3,32,31"], "other value"),
            (["mov x1, #0", ".byte 213,3,32,31"], "other value"),
            (["mov x2, #111", ".byte 213,3,32,31"], "other register"),
            (["mov x11, #222", ".byte 213,3,32,31"], "other register"),
            (["mov x10, #111", ".byte 213,3,32,31"], "other register"),
            (["mov x1, #111", "add x10, x10, #64"], "not followed by the byte directive"),
            (["mov x1, #222", "add x10, x10, #64"], "not followed by the byte directive"),
            (["mov x1, #111", ".L77:"], "not followed by the byte directive"),
            (["mov x1, #222", "// just a comment"], "not followed by the byte directive"),
            (["mov x1, #111", ".p2align 4", "add x10, x10, #64"], "followed by another directive"),
            (["mov x1, #222", ".text", "add x10, x10, #64"], "followed by another directive"),
            (["mov x1, #111", ".byte 213,3,32,30", "add x10, x10, #64"], "other bytes"),
            (["mov x1, #222", ".byte 213,4,32,31", "add x10, x10, #64"], "other bytes"),
            (["mov x1, #111", ".byte 31,32,3,213", "add x10, x10, #64"], "other bytes"),
            (["mov x1, #111", ".byte 213,3,32", "add x10, x10, #64"], "too few bytes"),
            (["mov x1, #222", ".byte 213", "add x10, x10, #64"], "too few bytes"),
            (["mov x1, x2", ".byte 213,3,32,31"], "no immediate"),
            (["add x1, x1, #111", ".byte 213,3,32,31"], "other mnemonic"),
            (["movk x1, #111", ".byte 213,3,32,31"], "other mnemonic"),
        ],
    },
}

# units that are recognised / treated specially by the *code* but about which the property is silent
# (correspondence only, never in oracle-checked layouts)
WILD = {
    "x86": [
        ["MOVL $111, %ebx", ".byte 100,103,144"], ["movl $111, %EBX", ".byte 100,103,144"],
        [".L1: # OSACA-BEGIN"], [".L2: # OSACA-END"], [".text # OSACA-BEGIN"], [".byte 100,103,144 # OSACA-END"],
        ["mov", ".byte 100,103,144"], ["mov %ebx", ".byte 100,103,144"], ["movl $111, %ebx", ".byte foo"],
        ["movl $222, %ebx", ".byte 100,bar,144"], ["movl $111, %ebx", ".byte"], ["movl $111, %ebx", ".byte 100,103,144,7"],
        ["movl $111, %ebx", ".byte 0100,103,144"], ["movl $111, %ebx", ".byte 1_00,103,144"], ["movl $111, %ebx", ".byte +100,103,144"],
        ["movl $111, %ebx", ".byte 0X64,0o147,0b10010000"], ["movl $foo, %ebx", ".byte 100,103,144"],
        ["movl $111, %ebx", ".byte 100", ".byte 103", ".byte 144", ".byte 9"], ["movl $111, %ebx", ".byte 100,103,144", ".byte .L2-.L1"],
        ["movl $222, %ebx", ".byte 100,103,144", ".byte zz"], ["movl $111, %ebx", ".byte 100,103", ".long 5", ".byte 144"],
        ["mov $0x6f, %ebx", ".byte 0x64,0x67,0x90"], ["mov $0xde, %ebx", ".byte 0x64,0x67,0x90"],
    ],
    "aarch64": [
        ["MOV x1, #111", ".byte 213,3,32,31"], ["mov X1, #111", ".byte 213,3,32,31"], ["mov w1, #111", ".byte 213,3,32,31"],
        [".L1: // OSACA-BEGIN"], [".L2: // OSACA-END"], [".text // OSACA-BEGIN"], [".byte 213,3,32,31 // OSACA-END"],
        ["mov x1", ".byte 213,3,32,31"], ["mov x1, #111", ".byte foo"], ["mov x1, #222", ".byte 213,bar,32,31"],
        ["mov x1, #111", ".byte"], ["mov x1, #111", ".byte 213,3,32,31,7"], ["mov x1, #111", ".byte 0213,3,32,31"],
        ["mov x1, #111", ".byte 2_13,3,32,31"], ["mov x1, #111", ".byte 0XD5", ".byte 3,32,31"], ["mov x1, #111", ".byte 0xD5,0x03,32,31"], ["mov x1, :lo12:foo", ".byte 213,3,32,31"],
        ["mov x1, #111", ".byte 213,3,32,31", ".byte .L2-.L1"], ["mov x1, #222", ".byte 213,3,32,31", ".byte zz"],
        ["mov x1, #111.0", ".byte 213,3,32,31"], ["mov x1, #111", ".byte 213,3", ".long 5", ".byte 32,31"],
        ["mov x1, #0x6f", ".byte 0xd5,0x3,0x20,0x1f"], ["mov x1, #0xde", ".byte 0xd5,0x3,0x20,0x1f"],
        ["mov v1.4s, #111", ".byte 213,3,32,31"],
    ],
}


def cmt(isa):
    return "#" if isa == "x86" else "//"


def fmt_byte(rng, v, isa="x86"):
    k = rng.random()
    if isa != "x86" and k >= 0.85:
        k = 0.7  # the AArch64 directive grammar splits 0X.., 0b.., 0o.. into two parameters
    if k < 0.6:
        return str(v)
    if k < 0.85:
        return hex(v)
    if k < 0.9:
        return "0X%X" % v
    if k < 0.95:
        return "0x%02x" % v
    return "0b" + bin(v)[2:] if rng.random() < 0.5 else "0o" + oct(v)[2:]


def byte_lines(rng, isa, split=None):
    """the nop bytes on one or several `.byte` lines (every composition into consecutive chunks)"""
    nop = CONV[isa]["nop"]
    n = len(nop)
    if split is None:
        split = rng.randrange(1 << (n - 1))
    chunks, cur = [], [nop[0]]
    for i in range(1, n):
        if split >> (i - 1) & 1:
            chunks.append(cur)
            cur = []
        cur.append(nop[i])
    chunks.append(cur)
    out = []
    for ch in chunks:
        sep = rng.choice([",", ", ", " , "])
        s = rng.choice([".byte ", ".byte     ", "\t.byte\t", "        .byte "]) + sep.join(fmt_byte(rng, v, isa) for v in ch)
        if rng.random() < 0.3:
            s += "   %s OSACA MARKER" % cmt(isa)
        out.append(s)
    return out


def mov_line(rng, isa, which):
    c = CONV[isa]
    val = c["vals"][which]
    vtxt = rng.choice([str(val), str(val), hex(val)])
    if isa == "x86":
        s = "%s%s $%s,%s%%%s" % (rng.choice(["", "    ", "\t"]), rng.choice(c["movs"]), vtxt, rng.choice([" ", "", "  "]), c["reg"])
    else:
        s = "%smov %s, %s%s" % (rng.choice(["", "    ", "\t"]), c["reg"], rng.choice(["#", "#", ""]), vtxt)
    if rng.random() < 0.3:
        s += "  %s OSACA %s MARKER" % (cmt(isa), "START" if which == 0 else "END")
    return s


def marker(rng, isa, which, style=None):
    """(lines, style) of a start (which=0) / end (which=1) marker"""
    style = style or rng.choice(["comment", "bytes", "bytes"])
    if style == "comment":
        txt = COMMENT_BEGIN if which == 0 else COMMENT_END
        return [rng.choice(["", "    ", "\t"]) + cmt(isa) + rng.choice(["", " ", "   "]) + txt + rng.choice(["", " ", "  "])], style
    return [mov_line(rng, isa, which)] + byte_lines(rng, isa), style


def quiet_segment(rng, isa, n, blanks=True, first_not_byte=False):
    """n units of lines free of markers in the sense of the property (decoys included)"""
    p = POOL[isa]
    out = []
    notes = {}
    for _ in range(n):
        k = rng.random()
        if k < 0.45:
            unit = [rng.choice(p["ins"])]
        elif k < 0.55:
            unit = [rng.choice(p["comment"])]
        elif k < 0.62:
            unit = [rng.choice(p["label"])]
        elif k < 0.72:
            unit = [rng.choice(p["directive"])]
        elif k < 0.78 and blanks:
            unit = [rng.choice(p["blank"])]
        else:
            unit, note = rng.choice(p["decoy"])
            notes[note] = notes.get(note, 0) + 1
        out += unit
    if first_not_byte:
        while out and re.match(r"\s*\.byte\b", out[0]):
            out.pop(0)
    return out, notes


def layout_file(rng, isa, shape=None, max_units=12):
    """A file with known layout.  Returns dict(lines, expect=(first index, count) in raw lines of the
    expected kernel, shape, styles, notes)."""
    shape = shape or rng.choice(["marked"] * 6 + ["none", "none", "start-only", "end-only"])
    pro, n1 = quiet_segment(rng, isa, rng.randrange(0, max_units))
    body, n2 = quiet_segment(rng, isa, rng.randrange(0, max_units))
    epi, n3 = quiet_segment(rng, isa, rng.randrange(0, max_units))
    notes = {}
    for d in (n1, n2, n3):
        for k, v in d.items():
            notes[k] = notes.get(k, 0) + v
    sm, s1 = marker(rng, isa, 0)
    em, s2 = marker(rng, isa, 1)
    if shape == "marked":
        # the epilogue is unconstrained: it may contain further markers of any kind
        if rng.random() < 0.4:
            extra, _ = marker(rng, isa, rng.randrange(2))
            pos = rng.randrange(len(epi) + 1)
            epi = epi[:pos] + extra + epi[pos:]
        lines = pro + sm + body + em + epi
        seg = (len(pro) + len(sm), len(body))
    elif shape == "none":
        lines = pro + body + epi
        seg = (0, len(lines))
        s1 = s2 = None
    elif shape == "start-only":
        lines = pro + sm + body + epi
        seg = (len(pro) + len(sm), len(body) + len(epi))
        s2 = None
    else:
        lines = pro + body + em + epi
        seg = (0, len(pro) + len(body))
        s1 = None
    return {"lines": lines, "seg": seg, "shape": shape, "styles": (s1, s2), "notes": notes,
            "sizes": (len(pro), len(sm) if s1 else 0, len(body), len(em) if s2 else 0, len(epi))}


def wild_file(rng, isa, max_units=10):
    """marker fragments, code-specific look-alikes and error triggers in random order"""
    out = []
    for _ in range(rng.randrange(1, max_units)):
        k = rng.random()
        if k < 0.35:
            seg, _ = quiet_segment(rng, isa, 1)
            out += seg
        elif k < 0.6:
            out += marker(rng, isa, rng.randrange(2))[0]
        elif k < 0.7:
            m = marker(rng, isa, rng.randrange(2), "bytes")[0]
            out += m[: rng.randrange(1, len(m) + 1)]  # truncated marker
        else:
            out += rng.choice(WILD[isa])
    return out


def is_blank(s):
    return s.strip() == ""


# --------------------------------------------------------------------------- abstraction
def abstract_line(form, parser):
    """InstructionForm -> protocol field text (see lean/OsacaVerif/Driver/C11.lean)"""
    from osaca.parser.immediate import ImmediateOperand
    from osaca.parser.register import RegisterOperand

    def opt(x):
        return "N" if x is None else "S" + str(x)

    if form.directive is None:
        d = "N"
    else:
        d = "S" + "\x03".join([str(form.directive.name)] +
                               [("s" + x) if isinstance(x, str) else "t" for x in (form.directive.parameters or [])])
    ops = []
    for o in form.operands or []:
        if isinstance(o, ImmediateOperand):
            try:
                v = parser.normalize_imd(o)
            except Exception:  # noqa
                v = None
            if isinstance(v, bool):
                ops.append("J")
            elif isinstance(v, int):
                ops.append("I%d" % v)
            elif isinstance(v, float) and v == v and abs(v) != float("inf") and v.is_integer():
                ops.append("I%d" % int(v))
            else:
                ops.append("J")
        elif isinstance(o, RegisterOperand):
            try:
                ops.append("R" + str(parser.get_full_reg_name(o)))
            except Exception:  # noqa
                ops.append("O")
        else:
            ops.append("O")
    return "\x01".join([str(form.line_number), opt(form.mnemonic), opt(form.comment), d, "\x03".join(ops)])


# --------------------------------------------------------------------------- --lines
def gen_items(rng, max_line=60):
    """random non-empty list of items: ('s', n) or ('r', a, b, colon)"""
    items = []
    for _ in range(rng.randrange(1, 6)):
        if rng.random() < 0.45:
            items.append(("s", rng.randrange(0, max_line)))
        else:
            a = rng.randrange(0, max_line)
            k = rng.random()
            if k < 0.1:
                b = a
            elif k < 0.2:
                b = a - rng.randrange(1, 4) if a >= 4 else a  # empty range
            else:
                b = a + rng.randrange(0, 12)
            items.append(("r", a, b, rng.random() < 0.4))
    return items


def render_items(items):
    out = []
    for it in items:
        if it[0] == "s":
            out.append(str(it[1]))
        else:
            out.append("%d%s%d" % (it[1], ":" if it[3] else "-", it[2]))
    return ",".join(out)


def denote_items(items):
    out = []
    for it in items:
        if it[0] == "s":
            out.append(it[1])
        else:
            out += list(range(it[1], it[2] + 1))
    return out


def spec_items_field(items):
    return ",".join(str(it[1]) if it[0] == "s" else "%d-%d" % (it[1], it[2]) for it in items)


def mangle_spec(rng, s):
    """non-canonical and malformed variants of a --lines string"""
    k = rng.randrange(12)
    pos = rng.randrange(len(s) + 1)
    ins = [" ", "+", "_", "-", ",", ":", "0", "x", "1_0", " 7 ", "--", ",,", "\t", "5-", "-5", "00"][rng.randrange(16)]
    if k < 7:
        return s[:pos] + ins + s[pos:]
    if k < 9 and s:
        return s[:pos] + s[pos + 1:]
    if k == 9:
        return s + "," + ins
    if k == 10:
        return ""
    return s.replace("-", "-+", 1)


def gen_int_text(rng):
    """texts for int(x) / int(x, 0): valid literals of every base, and near misses"""
    k = rng.random()
    v = rng.choice([0, 1, 7, 9, 10, 31, 100, 103, 144, 213, 255, 256, 4095, 65535, rng.randrange(10 ** 6)])
    base = rng.choice(["d", "d", "d", "x", "x", "o", "b", "X", "O", "B"])
    body = {"d": str(v), "x": hex(v), "X": "0X%X" % v, "o": oct(v), "O": "0O" + oct(v)[2:], "b": bin(v), "B": "0B" + bin(v)[2:]}[base]
    if k < 0.35:
        return body
    s = body
    for _ in range(rng.randrange(1, 3)):
        pos = rng.randrange(len(s) + 1)
        ins = rng.choice(["_", "_", "0", "+", "-", " ", "\t", "x", "g", "9", "8", "2", "f", "__", "0x", "", "\x0b", "\x1f", "a", "O", "b"])
        if rng.random() < 0.8:
            s = s[:pos] + ins + s[pos:]
        elif s:
            s = s[:pos] + s[pos + 1:]
    return s
