"""C09 helpers: AST domain of the property, renderer with layout, generators of lines and files,
canonical rendering of `InstructionForm`s (same text format as lean/OsacaVerif/Driver/C09.lean).

AST (plain tuples, JSON friendly):
    instruction = {"mn": str, "ops": [operand...], "comment": [word...] or None}
    operand     = ["reg", name] | ["imm", int] | ["ident", name]
                | ["mem", off, base, index, scale]     off = None | ["imm", int] | ["ident", name]
Everything random comes from the `rng` passed in.
"""
from harness.core import esc

# --------------------------------------------------------------------------- canonical text


def _opt(s):
    return "~" if s is None else esc(s)


def canon_expected_op(o):
    k = o[0]
    if k == "reg":
        return "R;" + esc(o[1])
    if k == "imm":
        return "I;%d" % o[1]
    if k == "ident":
        return "L;" + esc(o[1])
    if k == "mem":
        _, off, base, index, scale = o
        if off is None:
            so = "~"
        elif off[0] == "imm":
            so = "I%d" % off[1]
        else:
            so = "L" + esc(off[1])
        return "M;%s;%s;%s;%d;0" % (so, _opt(base), _opt(index), scale)
    raise ValueError(o)


def canon_expected(kind, **kw):
    """Expected canonical text of a line of the generator's own making (the oracle side)."""
    if kind == "instruction":
        ast = kw["ast"]
        c = None if ast.get("comment") is None else " ".join(ast["comment"])
        ops = [canon_expected_op(o) for o in ast["ops"]]
        return " ".join(["K", esc(ast["mn"]), "~", "~", _opt(c), "0", str(len(ops))] + ops)
    if kind == "comment":
        return " ".join(["K", "~", "~", "~", esc(" ".join(kw["words"])), "0", "0"])
    if kind == "label":
        c = None if kw.get("comment") is None else " ".join(kw["comment"])
        return " ".join(["K", "~", esc(kw["name"]), "~", _opt(c), "0", "0"])
    if kind == "directive":
        c = None if kw.get("comment") is None else " ".join(kw["comment"])
        ps = kw["params"]
        return " ".join(["K", "~", "~", esc(kw["name"]), _opt(c), str(len(ps))] + [esc(p) for p in ps] + ["0"])
    raise ValueError(kind)


def canon_impl_op(o):
    from osaca.parser.identifier import IdentifierOperand
    from osaca.parser.immediate import ImmediateOperand
    from osaca.parser.memory import MemoryOperand
    from osaca.parser.register import RegisterOperand

    if isinstance(o, RegisterOperand):
        extra = [o.width, o.prefix, o.regtype, o.lanes, o.shape, o.index, o.mask, o.zeroing, o.predication,
                 o.pre_indexed, o.post_indexed, o.shift, o.shift_op]
        s = "R;" + (esc(o.name) if isinstance(o.name, str) else "?%r" % (o.name,))
        if extra != [None, None, None, None, None, None, False, False, None, False, False, False, False]:
            s += "!" + esc(repr(extra))
        return s
    if isinstance(o, ImmediateOperand):
        if type(o.value) is int and o.identifier is None and o.imd_type is None and o._shift is None:
            return "I;%d" % o.value
        return "I;?" + esc(repr((o.identifier, o.imd_type, o.value, o._shift)))
    if isinstance(o, IdentifierOperand):
        s = "L;" + (esc(o.name) if isinstance(o.name, str) else "?%r" % (o.name,))
        if o.offset is not None or o.relocation is not None:
            s += "!" + esc(repr((o.offset, o.relocation)))
        return s
    if isinstance(o, MemoryOperand):
        off = o.offset
        if off is None:
            so = "~"
        elif isinstance(off, ImmediateOperand) and type(off.value) is int:
            so = "I%d" % off.value
        elif isinstance(off, ImmediateOperand) and isinstance(off.value, str):
            so = "S" + esc(off.value)
        elif isinstance(off, IdentifierOperand) and isinstance(off.name, str):
            so = "L" + esc(off.name)
        else:
            so = "J"

        def reg(r):
            if r is None:
                return "~"
            if isinstance(r, RegisterOperand) and isinstance(r.name, str) and r.prefix is None:
                return esc(r.name)
            return "?" + esc(repr(r))

        s = "M;%s;%s;%s;%s;%d" % (so, reg(o.base), reg(o.index),
                                  ("%d" % o.scale) if type(o.scale) is int else "?" + esc(repr(o.scale)),
                                  0 if o.segment_ext is None else 1)
        extra = [o.mask, o.pre_indexed, o.post_indexed, o.indexed_val]
        if extra != [None, False, False, None]:
            s += "!" + esc(repr(extra))
        return s
    return "?" + esc(repr(o))


def canon_impl_form(f):
    d = f.directive
    ps = list(d.parameters) if d is not None else []
    ops = [canon_impl_op(o) for o in (f.operands or [])]
    return " ".join(["K", _opt(f.mnemonic), _opt(f.label), "~" if d is None else esc(d.name), _opt(f.comment),
                     str(len(ps))] + [esc(p) for p in ps] + [str(len(ops))] + ops)


def property_view(canon):
    """What the property speaks about, read off a canonical text: the class (exactly one of the four),
    and for instruction lines the mnemonic and the operands.  Comment texts, label names and directive
    parameters are compared model-vs-implementation only."""
    if not canon.startswith("K "):
        return ("error", canon.split(" ")[0])
    f = canon.split(" ")
    mn, label, dn, comment, npar = f[1], f[2], f[3], f[4], int(f[5])
    rest = f[6 + npar:]
    anomalies = [x for x in rest[1 + int(rest[0]):]]
    classes = []
    if mn != "~":
        classes.append("instruction")
    if label != "~":
        classes.append("label")
    if dn != "~":
        classes.append("directive")
    if not classes and comment != "~":
        classes.append("comment")
    if len(classes) != 1:
        return ("classes", tuple(classes))
    if classes[0] == "instruction":
        return ("instruction", mn, tuple(rest[1:1 + int(rest[0])])) + tuple(anomalies)
    return (classes[0],) + tuple(anomalies)


def impl_line(parser, line, line_number=None):
    """canonical text of the real parser's result on one line (exceptions -> E / A / X:<type>)"""
    try:
        f = parser.parse_line(line, line_number)
    except ValueError:
        return "E"
    except AttributeError:
        return "A"
    except Exception as e:  # noqa
        return "X:" + type(e).__name__
    s = canon_impl_form(f)
    if f.line != line or f.line_number != line_number:
        s += " !line=%s/%r" % (esc(str(f.line)), f.line_number)
    return s


# --------------------------------------------------------------------------- the AST domain

GPR64 = ["rax", "rbx", "rcx", "rdx", "rsi", "rdi", "rbp", "rsp"] + ["r%d" % i for i in range(8, 16)]
GPR32 = ["eax", "ebx", "ecx", "edx", "esi", "edi", "ebp", "esp"] + ["r%dd" % i for i in range(8, 16)]
GPR16 = ["ax", "bx", "cx", "dx", "si", "di", "bp", "sp"] + ["r%dw" % i for i in range(8, 16)]
GPR8 = ["al", "bl", "cl", "dl", "ah", "bh", "ch", "dh", "sil", "dil", "bpl", "spl"] + ["r%db" % i for i in range(8, 16)]
VEC = ["%smm%d" % (p, i) for p in "xyz" for i in range(32)]
OTHER = ["rip", "k1", "k7", "mm3", "st", "fs", "gs", "cl"]
ALL_REGS = GPR64 + GPR32 + GPR16 + GPR8 + VEC + OTHER
ADDR_REGS = GPR64 + GPR32 + ["rip"]
MNEMONICS = ["mov", "movq", "movl", "addq", "vaddpd", "vfmadd231pd", "lea", "leaq", "cmpq", "jne", "jmp", "call",
             "ret", "nop", "vmovapd", "vmovupd", "imul", "shlq", "xorl", "incq", "subq", "pushq", "popq", "testl",
             "vpgatherdd", "kmovw", "movabsq", "cltq", "vzeroupper", "prefetcht0", "ja", "jb", "cmovge", "sete",
             "VADDPD", "Mov", "add3", "x", "data", "data1", "d16"]
ID_FIRST = "abcdefghijklmnopqrstuvwxyzABCDEFGHIJKLMNOPQRSTUVWXYZ_."
ID_REST = ID_FIRST + "0123456789$"
LABELS = [".L10", ".LBB0_3", "main", "_Z3fooPd", ".LC0", "loop_start", "kernel$1", "a", "_", ".", "foo.bar", "L1", "x2"]
ALNUM = "abcdefghijklmnopqrstuvwxyzABCDEFGHIJKLMNOPQRSTUVWXYZ0123456789"
WORD_CHARS = "".join(chr(c) for c in range(33, 127))


def gen_label(rng):
    if rng.random() < 0.5:
        return rng.choice(LABELS)
    n = rng.randint(0, 6)
    return rng.choice(ID_FIRST) + "".join(rng.choice(ID_REST) for _ in range(n))


def gen_reg(rng, pool=None):
    r = rng.choice(pool or ALL_REGS)
    x = rng.random()
    if x < 0.06:
        return r.upper()
    if x < 0.09:
        return r.capitalize()
    return r


def gen_int(rng):
    x = rng.random()
    if x < 0.35:
        v = rng.randint(0, 64)
    elif x < 0.6:
        v = rng.randint(0, 1 << 16)
    elif x < 0.8:
        v = rng.randint(0, 1 << 32)
    elif x < 0.95:
        v = rng.randint(0, (1 << 64) - 1)
    else:
        v = rng.choice([0, 1, 7, 8, 9, 10, 15, 16, 255, 256, (1 << 31) - 1, 1 << 31, (1 << 63) - 1, 1 << 63, (1 << 64) - 1])
    if rng.random() < 0.3:
        v = -v
    return v


def gen_mem(rng):
    combo = rng.randint(1, 7)  # bit0 disp, bit1 base, bit2 index
    off = base = index = None
    scale = 1
    if combo & 1:
        off = ["ident", gen_label(rng)] if rng.random() < 0.2 else ["imm", gen_int(rng)]
    if combo & 2:
        base = gen_reg(rng, ADDR_REGS)
    if combo & 4:
        index = gen_reg(rng, GPR64 + GPR32 + VEC[:8])
        scale = rng.choice([1, 1, 2, 4, 8])
    return ["mem", off, base, index, scale]


def gen_operand(rng, first):
    x = rng.random()
    if x < 0.4:
        return ["reg", gen_reg(rng)]
    if x < 0.6:
        return ["imm", gen_int(rng)]
    if x < 0.9:
        return gen_mem(rng)
    return ["ident", gen_label(rng)]


def gen_mnemonic(rng):
    if rng.random() < 0.8:
        return rng.choice(MNEMONICS)
    while True:
        m = rng.choice(ALNUM[:52]) + "".join(rng.choice(ALNUM) for _ in range(rng.randint(0, 7)))
        if not (m.startswith("data16") or m.startswith("data32")):
            return m


def gen_comment_words(rng):
    n = rng.choice([0, 1, 1, 2, 3, 5])
    out = []
    for _ in range(n):
        if rng.random() < 0.5:
            out.append(rng.choice(["LLVM-MCA-BEGIN", "OSACA-END", "foo", "%rax,", "#", "//", "x=1", "8(%rbp)", ":", "a:b", "$5", "\"q\""]))
        else:
            out.append("".join(rng.choice(WORD_CHARS) for _ in range(rng.randint(1, 6))))
    return out


def gen_ast(rng, nops=None):
    n = rng.choice([0, 1, 1, 2, 2, 2, 3, 3, 4]) if nops is None else nops
    ops = [gen_operand(rng, i == 0) for i in range(n)]
    return {"mn": gen_mnemonic(rng), "ops": ops,
            "comment": gen_comment_words(rng) if rng.random() < 0.3 else None}


# --------------------------------------------------------------------------- rendering with layout


def ws(rng, allow_empty=True):
    x = rng.random()
    if allow_empty and x < 0.45:
        return ""
    if x < 0.75:
        return " "
    if x < 0.85:
        return "\t"
    return "".join(rng.choice(" \t") for _ in range(rng.randint(1, 4)))


def render_int(rng, v, allow_neg_dec=True):
    neg = v < 0
    a = abs(v)
    if rng.random() < 0.5:
        h = "%x" % a
        x = rng.random()
        if x < 0.3:
            h = h.upper()
        elif x < 0.4:
            h = "".join(c.upper() if rng.random() < 0.5 else c for c in h)
        if rng.random() < 0.15:
            h = "0" * rng.randint(1, 3) + h
        s = "0x" + h
    else:
        s = "%d" % a
    if neg:
        s = "-" + s
    elif v == 0 and rng.random() < 0.1:
        s = "-" + s  # "-0" is the integer 0
    return s


def render_comment(rng, words):
    sym = rng.choice(["#", "#", "//"])
    s = sym
    for i, w in enumerate(words):
        s += ws(rng, allow_empty=(i == 0)) + w
    return s + ws(rng)


def render_operand(rng, o, first):
    k = o[0]
    if k == "reg":
        return "%" + o[1]
    if k == "imm":
        return "$" + render_int(rng, o[1])
    if k == "ident":
        # a bare identifier is only an operand in first position; `$name` works everywhere
        if first and rng.random() < 0.6:
            return o[1]
        return "$" + o[1]
    _, off, base, index, scale = o
    d = ""
    if off is not None:
        d = render_int(rng, off[1]) if off[0] == "imm" else off[1]
    if base is None and index is None:
        return d  # displacement only: bare number / label
    s = d + (ws(rng) if d else "") + "(" + ws(rng)
    if base is not None:
        s += "%" + base + ws(rng)
    if index is not None:
        s += "," + ws(rng) + "%" + index + ws(rng)
        if scale != 1 or rng.random() < 0.5:
            s += "," + ws(rng) + str(scale) + ws(rng)
    return s + ")"


def renderable(ast):
    """The renderer's own restrictions (documented in notes/C09.md): a displacement-only memory
    operand whose displacement is a label is syntactically a bare identifier, which the grammar only
    admits as the first operand and reports as an identifier."""
    for i, o in enumerate(ast["ops"]):
        if o[0] == "mem" and o[2] is None and o[3] is None and o[1] is not None and o[1][0] == "ident":
            return False
    return True


def render_line(rng, ast):
    s = ws(rng) + ast["mn"]
    for i, o in enumerate(ast["ops"]):
        if i == 0:
            s += ws(rng, allow_empty=False)
        else:
            s += ws(rng) + "," + ws(rng)
        s += render_operand(rng, o, i == 0)
    if ast.get("comment") is not None:
        s += ws(rng) + render_comment(rng, ast["comment"])
    else:
        s += ws(rng)
    return s


def gen_instruction_line(rng):
    while True:
        ast = gen_ast(rng)
        if renderable(ast):
            return ast, render_line(rng, ast)


# --------------------------------------------------------------------------- other line classes

DIRECTIVES = ["text", "globl", "align", "p2align", "type", "size", "section", "byte", "long", "quad", "file", "loc",
              "cfi_startproc", "cfi_def_cfa_offset", "string", "ident", "L_x", "4byte", "p2align_9"]
PARAMS = ["4", "main", "@function", ".text", "0x90", "15", ".-main", "\"ax\"", "@progbits", "1", "2", "kernel.c",
          "\"GCC: (GNU) 9.1.0\"", "\"a b\"", "'c'", "'x, y # z'", "$5", "%rax", "a:b", "(%rip)"]


def gen_comment_line(rng):
    words = gen_comment_words(rng)
    return {"kind": "comment", "words": words}, ws(rng) + render_comment(rng, words)


def gen_label_line(rng):
    x = rng.random()
    if x < 0.8:
        name = gen_label(rng)
        text = name
    elif x < 0.9:
        name = str(rng.randint(0, 99))
        text = name
    else:
        name = gen_label(rng)
        if rng.random() < 0.5:
            name = name + rng.choice(["(", ")", "+1", "-2", "()"])
        text = name
    c = gen_comment_words(rng) if rng.random() < 0.3 else None
    line = ws(rng) + text + ws(rng) + ":" + ws(rng)
    if c is not None:
        line += render_comment(rng, c)
    return {"kind": "label", "name": name, "comment": c}, line


def gen_directive_line(rng):
    name = rng.choice(DIRECTIVES)
    n = rng.choice([0, 0, 1, 1, 2, 3])
    params = [rng.choice(PARAMS) for _ in range(n)]
    line = ws(rng) + "." + name
    for i, p in enumerate(params):
        if i == 0:
            line += ws(rng, allow_empty=False)
        else:
            line += ws(rng) + "," + ws(rng)
        line += p
    c = gen_comment_words(rng) if rng.random() < 0.25 else None
    line += ws(rng)
    if c is not None:
        # a `//` after a directive is not a comment for this grammar: only `#`
        s = "#"
        for i, w in enumerate(c):
            s += ws(rng, allow_empty=(i == 0)) + w
        line += s + ws(rng)
    return {"kind": "directive", "name": name, "params": params, "comment": c}, line


BLANKS = ["", "", " ", "\t", "  \t ", "\r", " \r", "\x0c", "\x0b", " \x0c "]


def gen_file(rng, nlines=None):
    """A file as a list of (expected, text) with expected None for blank lines."""
    n = rng.randint(0, 14) if nlines is None else nlines
    crlf = rng.random() < 0.15
    lines = []
    for _ in range(n):
        x = rng.random()
        if x < 0.25:
            lines.append((None, rng.choice(BLANKS)))
            continue
        if x < 0.65:
            ast, text = gen_instruction_line(rng)
            exp = canon_expected("instruction", ast=ast)
        elif x < 0.77:
            d, text = gen_comment_line(rng)
            exp = canon_expected("comment", words=d["words"])
        elif x < 0.89:
            d, text = gen_label_line(rng)
            exp = canon_expected("label", name=d["name"], comment=d["comment"])
        else:
            d, text = gen_directive_line(rng)
            exp = canon_expected("directive", name=d["name"], params=d["params"], comment=d["comment"])
        if crlf:
            text += "\r"
        lines.append((exp, text))
    return lines



# --------------------------------------------------------------------------- spec stream
# Lines with an *explicit* layout in the vocabulary of lean/OsacaVerif/Spec/X86Render.lean
# (`Line`, `OpLayout`, `NumFmt`, `CommentLayout`).  Rendered three times: by `render_spec` below,
# by the Lean specification (driver op `x86spec`) and -- after parsing -- compared with the AST.


def blanks(rng, allow_empty=True):
    return ws(rng, allow_empty)


def gen_spec_line(rng):
    while True:
        ast = gen_ast(rng)
        if renderable(ast):
            break
    ops = []
    for i, o in enumerate(ast["ops"]):
        L = {"pre": blanks(rng, allow_empty=(i != 0)), "post": blanks(rng),
             "hex": rng.random() < 0.5, "upper": rng.random() < 0.4, "zeros": rng.choice([0, 0, 0, 1, 2, 5]),
             "bare": bool(o[0] == "ident" and i == 0 and rng.random() < 0.6),
             "showScale": rng.random() < 0.5}
        for k in range(1, 8):
            L["w%d" % k] = blanks(rng)
        ops.append((L, o))
    comment = None
    if ast.get("comment") is not None:
        words = [(blanks(rng, allow_empty=(j == 0)), w) for j, w in enumerate(ast["comment"])]
        comment = {"slashes": rng.random() < 0.4, "words": words, "last": blanks(rng)}
    return {"indent": blanks(rng), "mn": ast["mn"], "trail": blanks(rng), "ops": ops, "comment": comment, "ast": ast}


def _spec_int(L, v):
    a = abs(v)
    if L["hex"]:
        h = "%x" % a
        s = "0x" + "0" * L["zeros"] + (h.upper() if L["upper"] else h)
    else:
        s = "%d" % a
    return ("-" if v < 0 else "") + s


def render_spec(line):
    s = line["indent"] + line["mn"]
    parts = []
    for L, o in line["ops"]:
        k = o[0]
        if k == "reg":
            t = "%" + o[1]
        elif k == "imm":
            t = "$" + _spec_int(L, o[1])
        elif k == "ident":
            t = o[1] if L["bare"] else "$" + o[1]
        else:
            _, off, base, index, scale = o
            d = "" if off is None else (_spec_int(L, off[1]) if off[0] == "imm" else off[1])
            if base is None and index is None:
                t = d
            else:
                t = d + L["w1"] + "(" + L["w2"]
                if base is not None:
                    t += "%" + base + L["w3"]
                if index is not None:
                    t += "," + L["w4"] + "%" + index + L["w5"]
                    if scale != 1 or L["showScale"]:
                        t += "," + L["w6"] + str(scale) + L["w7"]
                t += ")"
        parts.append(L["pre"] + t + L["post"])
    s += ",".join(parts) + line["trail"]
    c = line["comment"]
    if c is not None:
        s += ("//" if c["slashes"] else "#") + "".join(g + w for g, w in c["words"]) + c["last"]
    return s


def encode_spec(line):
    """protocol fields of `x86spec` (order: lean/OsacaVerif/Driver/C09.lean `decodeLine`)"""
    c = line["comment"]
    f = [line["indent"], line["mn"], line["trail"], "0" if c is None else ("2" if c["slashes"] else "1")]
    words = [] if c is None else c["words"]
    f.append(str(len(words)))
    for g, w in words:
        f += [g, w]
    f.append("" if c is None else c["last"])
    f.append(str(len(line["ops"])))
    b = lambda x: "1" if x else "0"
    for L, o in line["ops"]:
        f += [L["pre"], L["post"], b(L["hex"]), b(L["upper"]), str(L["zeros"]), b(L["bare"]), b(L["showScale"])]
        f += [L["w%d" % k] for k in range(1, 8)]
        if o[0] == "reg":
            f += ["R", o[1]]
        elif o[0] == "imm":
            f += ["I", str(o[1])]
        elif o[0] == "ident":
            f += ["L", o[1]]
        else:
            _, off, base, index, scale = o
            f += ["M", "0" if off is None else ("1" if off[0] == "imm" else "2"),
                  "" if off is None else str(off[1]), b(base is not None), base or "", b(index is not None), index or "",
                  str(scale)]
    return " ".join(esc(x) for x in f)

# --------------------------------------------------------------------------- extended stream
# well-formed for the grammar but outside the property's AST domain: compared model vs
# implementation only (no expected value).


def gen_extended_line(rng):
    n = rng.choice([1, 1, 2, 2, 3, 4])
    parts = []
    for i in range(n):
        x = rng.random()
        if x < 0.2:
            t = "%" + "".join(rng.choice(ALNUM) for _ in range(rng.randint(1, 5)))
        elif x < 0.4:
            t = "%" + rng.choice(VEC) + rng.choice(["{%k1}", "{k2}", "{%k1}{z}", " {%k3} {z}", "{%k1}{zz}", "{%k1}{z", "(1)", " (7)"])
        elif x < 0.5:
            t = rng.choice(["%st(1)", "%st (3)", "*%rax", "*8(%rax)", "*foo", "*.L1(%rip)", "*%gs:8"])
        elif x < 0.6:
            t = rng.choice(["%fs:", "%gs:", "%es:"]) + rng.choice(["8", "0x28", "(%rax)", "8(%rax,%rbx,2)", "foo", "", "-8"])
        elif x < 0.7:
            t = rng.choice(LABELS) + rng.choice(["@PLT", "@GOTPCREL(%rip)", "+8", "-4(%rip)", " + 8", "@PLT+4", "+8(%rip)", " 8"])
        elif x < 0.78:
            t = rng.choice(["1b", "2f", "3B", "12 f", "1", "5+foo", "5 + foo(%rip)"])
        elif x < 0.86:
            m = gen_mem(rng)
            t = render_operand(rng, m, i == 0) + rng.choice(["{%k1}", "{k1}", ""])
        elif x < 0.93:
            t = rng.choice(["(%rax,4)", "(%rax,%rbx,)", "(,%rbx)", "()", "8()", "(,,8)", "(%rax,,2)", "010", "-010", "$010", "$00", "0x", "$0X10", "$-0", "-0"])
        else:
            t = render_operand(rng, gen_operand(rng, i == 0), i == 0)
        parts.append(t)
    mn = rng.choice(["data16 ", "data32 data16 ", "data16", "", "", "", ""]) + gen_mnemonic(rng) + rng.choice(["", "", "", ",pt", ","])
    line = ws(rng) + mn + ws(rng, allow_empty=False)
    for i, t in enumerate(parts):
        if i:
            line += rng.choice([",", ", ", " , ", " ", "  ", ",,"])
        line += t
    if rng.random() < 0.2:
        line += ws(rng) + render_comment(rng, gen_comment_words(rng))
    return line


# --------------------------------------------------------------------------- malformed stream

JUNK = list(" \t,%$()#:.-*{}@+/x0") + ["0x", "::", "data16 ", "(", ")", ",,", "%k1", "{%k1}", "{z}", "@PLT", "*", "8", "-"]


def mutate_line(rng, line):
    """drop / duplicate / insert a character or token somewhere (informational stream)"""
    if not line:
        return rng.choice(JUNK)
    k = rng.random()
    i = rng.randrange(len(line))
    if k < 0.3:
        return line[:i] + line[i + 1:]
    if k < 0.5:
        return line[:i] + line[i] + line[i:]
    if k < 0.9:
        return line[:i] + rng.choice(JUNK) + line[i:]
    j = rng.randrange(len(line))
    a, b = min(i, j), max(i, j)
    return line[:a] + line[b:]
