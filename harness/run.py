"""./check <ID> [--tier quick|thorough] [--replay FILE]"""
import argparse
import importlib
import os
import sys
import traceback

HERE = os.path.dirname(os.path.abspath(__file__))
sys.path.insert(0, os.path.dirname(HERE))

from harness import core  # noqa: E402


def main():
    ap = argparse.ArgumentParser()
    ap.add_argument("pid")
    ap.add_argument("--tier", default=os.environ.get("VERIF_TIER", "quick"), choices=["quick", "thorough"])
    ap.add_argument("--replay", default=None)
    args = ap.parse_args()
    try:
        seed = int(os.environ.get("VERIF_SEED", "0"))
    except ValueError:
        seed = 0
    pid = args.pid.upper()
    os.chdir(core.VERIF)
    try:
        mod = importlib.import_module("harness.props." + pid.lower())
    except ImportError as e:
        print("no check for %s: %s" % (pid, e))
        return 2
    ctx = core.Ctx(pid, args.tier, seed)
    try:
        if args.replay:
            return mod.replay(ctx, args.replay)
        return mod.run(ctx)
    except core.InfraError as e:
        print("INFRASTRUCTURE ERROR (%s): %s" % (pid, e))
        ctx.cleanup()
        return 2
    except Exception:
        traceback.print_exc()
        print("INFRASTRUCTURE ERROR (%s): unexpected exception in the harness" % pid)
        ctx.cleanup()
        return 2


if __name__ == "__main__":
    sys.exit(main())
