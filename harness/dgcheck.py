"""Shared pipeline of the dependency-graph family (C03, C04, C05, C06, C14): analyse a kernel with the
real code, encode it for the Lean driver, compare graphs / critical path / LCDs, evaluate the oracles."""
import copy
import os
from fractions import Fraction

from harness import core, corpus, dgenc
from harness.core import esc, frac
from harness.dgenc import yenc2

TRUSTED = [
    "Lean 4.33 kernel; axioms audited (subset of propext, Classical.choice, Quot.sound)",
    "tools/translate.py plug-ins (register tables, constants)",
    "correspondence harness harness/dgcheck.py + harness/dgenc.py: generators, encoding of the implementation's "
    "semantic operands / latencies / register changes, comparison with 1e-9 tolerance",
    "modelled, not verified: networkx (DiGraph, all_simple_paths, dag_longest_path) -- replaced by the model's own "
    "path enumeration; the parsers (C09/C10) and operand-role assignment are taken from the implementation per kernel",
]


class Impl:
    """One analysed kernel of the real implementation."""

    def __init__(self, isa, arch, lines, flag_deps, mm=None, start_line=0, sem=None, gaps=None):
        from osaca.parser import ParserAArch64, ParserX86ATT
        from osaca.semantics import ArchSemantics, KernelDG, MachineModel

        self.isa, self.arch, self.lines, self.fd = isa, arch, lines, flag_deps
        self.parser = ParserX86ATT() if isa == "x86" else ParserAArch64()
        self.mm = mm if mm is not None else MachineModel(arch=arch)
        # `sem`: a semantics object that already analysed other kernels (how a library user holds it); else a fresh one
        self.sem = sem if sem is not None else ArchSemantics(self.mm)
        # `gaps`: positions before which the analysed file has a line that is not selected (what `--lines 1-2,4-8` or a
        # library user filtering the parsed list gives): the kernel's line numbers are then not consecutive
        self.gaps = sorted(set(gaps or []))
        if self.gaps:
            text, skip = [], set()
            for i, l in enumerate(lines):
                if i in self.gaps:
                    skip.add(len(text) + 1 + start_line)
                    text.append("")
                text.append(l)
            self.kernel = [k for k in self.parser.parse_file("\n".join(text), start_line) if k.line_number not in skip]
        else:
            self.kernel = self.parser.parse_file("\n".join(lines), start_line)
        self.sem.add_semantics(self.kernel)
        self.kdg = KernelDG(self.kernel, self.parser, self.mm, self.sem, timeout=-1, flag_dependencies=flag_deps)
        self.ky, self.raised = dgenc.kernel_y(self.kernel, self.sem)
        self.stlf, self.pidx = dgenc.model_params(self.mm)

    def info(self):
        d = {"isa": self.isa, "arch": self.arch, "kernel": self.lines, "flag_deps": self.fd}
        if self.gaps:
            d["gaps"] = self.gaps
        if getattr(self, "reanalysed_after", None) is not None:
            d["reanalysed_after_flag_deps"] = self.reanalysed_after
            if getattr(self, "reanalysed_sub", None):
                d["reanalysed_sub_range"] = self.reanalysed_sub
        if getattr(self, "shared_history", None):
            # kernels analysed before this one by the same ArchSemantics object (replayed first)
            d["earlier_on_same_semantics"] = self.shared_history
        return d

    def reanalysed(self, flag_deps, sub=None):
        """The SAME instruction-form objects analysed once more (a second KernelDG on the parsed kernel, as a library user or
        the report generators do), with another flag-dependency setting: nothing of the first analysis may show."""
        from osaca.semantics import KernelDG

        other = copy.copy(self)
        other.reanalysed_after = self.fd
        other.fd = flag_deps
        # the first analysis is completed first (its per-line marks are set when the results are asked for)
        self.kdg.get_critical_path()
        self.kdg.get_loopcarried_dependencies()
        if sub is not None:
            # an analysis of a sub-range of the same objects in between (what --lines / a library user selects)
            part = KernelDG(self.kernel[sub[0]:sub[1]], self.parser, self.mm, self.sem, timeout=-1, flag_dependencies=flag_deps)
            part.get_critical_path()
            part.get_loopcarried_dependencies()
            other.reanalysed_sub = list(sub)
        other.kdg = KernelDG(self.kernel, self.parser, self.mm, self.sem, timeout=-1, flag_dependencies=flag_deps)
        return other

    def head(self, op):
        return "%s %s %s %s %s" % (op, esc("x86" if self.isa == "x86" else "a64"), esc("1" if self.fd else "0"), esc(self.stlf), esc(self.pidx))

    # ---- implementation views
    def edges(self):
        return dgenc.impl_edges(self.kdg.dg)

    def lcd_set(self):
        out = set()
        for key, d in self.kdg.get_loopcarried_dependencies().items():
            lines = tuple(sorted(x.line_number for x, _ in d["dependencies"]))
            out.add((lines, round(float(d["latency"]), 9)))
        return out

    def cp(self):
        cp = self.kdg.get_critical_path()
        return [(x.line_number, float(x.latency_cp)) for x in cp]

    def doubled_edges(self):
        """edges of two concatenated iterations, built by the real create_DG (reference relation)"""
        k = self.kernel
        off = max(1000, max(i.line_number for i in k) + 1)
        tmp = [] + k
        for o in k:
            t = copy.copy(o)
            t.line_number += off
            tmp.append(t)
        dg = self.kdg.create_DG(tmp, self.fd)
        intra, cross = [], []
        for s, d, data in dg.edges(data=True):
            if int(s) != s or int(d) != d:
                continue
            w = Fraction(*float(data["latency"]).as_integer_ratio())
            if s < off and d < off:
                intra.append([int(s), int(d), w])
            elif s < off <= d:
                cross.append([int(s), int(d - off), w])
        return off, intra, cross

    def lat_infos(self):
        from osaca.semantics import INSTR_FLAGS

        out = []
        for i in self.kernel:
            lat = float(i.latency or 0.0)
            has_node = INSTR_FLAGS.HAS_LD in i.flags and INSTR_FLAGS.LD not in i.flags
            ls = lat - float(i.latency_wo_load) if has_node and i.latency_wo_load is not None else 0.0
            out.append([i.line_number, Fraction(*lat.as_integer_ratio()), Fraction(*ls.as_integer_ratio())])
        return out


def gen_coupled(rng, isa, maxlen):
    """Coupled recurrences: three-operand arithmetic over a pool of two or three registers, so that an instruction lies on
    several overlapping dependency cycles and cycles exist without a self-dependent member."""
    pool = rng.sample(range(0, 12), rng.choice([2, 3, 3]))
    lines = []
    for _ in range(rng.randint(3, max(3, min(maxlen, 7)))):
        a, b, c = rng.choice(pool), rng.choice(pool), rng.choice(pool)
        if isa == "x86":
            lines.append("%s %%xmm%d, %%xmm%d, %%xmm%d" % (rng.choice(["vaddpd", "vmulpd", "vsubpd"]), a, b, c))
        else:
            lines.append("%s d%d, d%d, d%d" % (rng.choice(["fadd", "fmul", "fsub"]), c, a, b))
    return lines


def gen_wbmix(rng):
    """AArch64: the same load/store mnemonic and register class once with address write-back and once without, the plain load
    on a store-to-load recurrence -- two instruction forms that differ only in the addressing mode"""
    fp = rng.choice(["d", "s", "q"])
    a, b, c = rng.sample(range(0, 8), 3)
    x1, x2, x3 = rng.sample(range(1, 12), 3)
    off = rng.choice([8, 16])
    wb = rng.choice(["[x%d], #%d" % (x1, off), "[x%d, #%d]!" % (x1, off)])
    plain = rng.choice(["[x%d]" % x2, "[x%d, #%d]" % (x2, off)])
    op = rng.choice(["fadd", "fmul"])
    lines = ["ldr %s%d, %s" % (fp, a, wb), "ldr %s%d, %s" % (fp, b, plain),
             "%s %s%d, %s%d, %s%d" % (op, "d" if fp == "q" else fp, b, "d" if fp == "q" else fp, b, "d" if fp == "q" else fp, a),
             "str %s%d, %s" % (fp, b, plain)]
    if rng.random() < 0.5:
        lines.append("subs x%d, x%d, #1" % (x3, x3))
    if rng.random() < 0.5:
        lines.insert(rng.randrange(len(lines)), "str %s%d, %s" % (fp, c, rng.choice(["[x%d], #%d" % (x3, off), "[x%d, #%d]" % (x3, off)])))
    return lines


def gen_memrec_x86(rng):
    """x86: a value accumulated in memory -- load, arithmetic, store to the same address -- so that the store-to-load
    dependency (with the model's forwarding latency) closes the cycle across the loop end, or inside the body once rotated"""
    a, b = rng.sample(range(0, 8), 2)
    base = rng.choice(["%rdx", "%rsi", "%r10"])
    disp = rng.choice(["", "8", "16"])
    mem = "%s(%s)" % (disp, base)
    op = rng.choice(["vaddsd", "vmulsd"])
    lines = ["vmovsd %s, %%xmm%d" % (mem, a), "%s %%xmm%d, %%xmm%d, %%xmm%d" % (op, b, a, a), "vmovsd %%xmm%d, %s" % (a, mem)]
    if rng.random() < 0.6:
        lines.append("addq $1, %rax")
    if rng.random() < 0.5:
        lines.append("cmpq %rax, %rcx")
    if rng.random() < 0.4:
        lines.insert(1, "vaddsd (%%rax,%%rcx,8), %%xmm%d, %%xmm%d" % (a, a))
    return lines


def gen_kernel(rng, isa, maxlen, kind=None):
    kind = kind or rng.choice(["plain", "plain", "mem", "memdep", "coupled", "wbmix"])
    if kind == "wbmix":
        if isa != "x86":
            return gen_wbmix(rng), None
        return gen_memrec_x86(rng), None
    if kind == "coupled":
        return gen_coupled(rng, isa, maxlen), None
    if kind == "memdep":
        lines, meta = (dgenc.gen_memdep_x86 if isa == "x86" else dgenc.gen_memdep_a64)(rng)
        return lines, meta
    n = rng.randint(2, maxlen)
    gen = dgenc.gen_x86_kernel if isa == "x86" else dgenc.gen_a64_kernel
    return gen(rng, n, mem=(kind != "plain"), npool=rng.choice([2, 3, 4])), None


def parse_lcd(reply):
    out = set()
    for tok in reply.split(" "):
        if not tok:
            continue
        lines, lat = tok.split("=")
        out.add((tuple(sorted(int(x) for x in lines.split("-"))), round(float(Fraction(lat)), 9)))
    return out


def lcd_close(a, b):
    """compare two sets {(lines, latency)} with tolerance on the latency"""
    da, db = dict(a), dict(b)
    if set(da) != set(db):
        return False
    return all(abs(da[k] - db[k]) < 1e-6 for k in da)


_SPECIAL = {}


def models_for(ctx, isa):
    """the tier's models of the ISA; in the quick tier plus every model with a non-zero store-to-load forwarding latency (the
    edge-weight clause of C06 and everything built on it shows only there; with a numeric ROB size first)"""
    base = list(corpus.archs_of(isa, ctx.tier == "quick"))
    if ctx.tier != "quick":
        return base
    if isa not in _SPECIAL:
        import re

        extra = []
        for a in corpus.archs_of(isa, False):
            if a in base:
                continue
            try:
                head = open(os.path.join(core.REPO, "osaca", "data", a + ".yml"), encoding="utf-8").read(6000)
            except OSError:
                continue
            m = re.search(r"(?m)^store_to_load_forward_latency:\s*([-\d.eE]+)", head)
            if m and float(m.group(1)) != 0.0:
                rob = re.search(r"(?m)^ROB_size:\s*(\d+)", head)
                extra.append((0 if rob else 1, a))
        _SPECIAL[isa] = [a for _, a in sorted(extra)][:2]
    return base + _SPECIAL[isa]


def setup(ctx, pid, gens, props):
    ctx.assumptions = TRUSTED
    ctx.prove(gens, props)
    ctx.thorough_recheck(props)
    ctx.env = core.Env(pid, archs=corpus.archs_of("x86", ctx.tier == "quick") + corpus.archs_of("aarch64", ctx.tier == "quick"))
    ctx.env.activate()
    import warnings

    warnings.filterwarnings("ignore")


def kernels_stream(ctx, n, maxlen, kinds=None, real=True, big=False):
    """yield Impl objects: shipped kernels first (on the tier's models), then generated ones"""
    from osaca.semantics import MachineModel

    rng = ctx.rng
    mms = {}

    def mm_of(arch):
        if arch not in mms:
            mms[arch] = MachineModel(arch=arch)
        return mms[arch]

    sems = {}

    def sem_of(arch):
        """every other generated kernel is analysed by ONE long-lived ArchSemantics object per model: nothing of an earlier
        kernel may leak into a later one (each kernel is judged on its own by the oracles)"""
        from osaca.semantics import ArchSemantics

        if rng.random() < 0.5:
            return None
        if arch not in sems:
            sems[arch] = ArchSemantics(mm_of(arch))
        ctx.count("kernels_on_shared_semantics")
        return sems[arch]

    if real:
        ks = corpus.real_kernels()
        if ctx.tier == "quick":
            ks = [k for i, k in enumerate(ks) if i % 3 == ctx.seed % 3]
        for path, isa in ks:
            parser, kernel = corpus.load_kernel(path, isa)
            lines = [k.line for k in kernel]
            if len(lines) >= 48 and not big:
                continue
            if len(lines) > 70:
                continue
            for arch in models_for(ctx, isa)[: (1 if ctx.tier == "quick" else 99)]:
                for fd in (False, True):
                    try:
                        yield Impl(isa, arch, lines, fd, mm_of(arch)), {"source": os.path.relpath(path, core.REPO)}
                    except Exception as e:  # noqa
                        ctx.log("skip %s on %s: %s: %s" % (os.path.basename(path), arch, type(e).__name__, e))
    for t in range(n):
        isa = "x86" if t % 2 == 0 else "aarch64"
        arch = rng.choice(models_for(ctx, isa))
        kind_ = rng.choice(kinds) if kinds else None
        if kind_ in ("wbmix", "memdep") and _SPECIAL.get(isa) and rng.random() < 0.6:
            arch = rng.choice(_SPECIAL[isa])       # memory recurrences: models with a forwarding latency
        lines, meta = gen_kernel(rng, isa, maxlen, kind_)
        fd = rng.random() < 0.4
        try:
            shared = sem_of(arch)
            gaps = None
            if len(lines) > 2 and rng.random() < 0.2:
                gaps = sorted(rng.sample(range(1, len(lines)), rng.randint(1, min(3, len(lines) - 1))))
                ctx.count("kernels_with_line_number_gaps")
            im_ = Impl(isa, arch, lines, fd, mm_of(arch), sem=shared, gaps=gaps)
            if shared is not None:
                hist = sems.setdefault("hist:" + arch, [])
                im_.shared_history = [list(h) for h in hist[-3:]]
                hist.append((lines, fd))
            yield im_, {"source": "generated", "meta": meta, "kind": kind_}
        except Exception as e:  # noqa
            ctx.count("impl_exceptions")
            ctx.violation("analysis of a generated kernel raised %s: %s" % (type(e).__name__, e),
                          {"isa": isa, "arch": arch, "kernel": lines, "flag_deps": fd, "exception": type(e).__name__},
                          key="analysis-exception:%s" % type(e).__name__)


# --------------------------------------------------------------------------- comparisons
def compare_dg(ctx, im):
    rep = ctx.driver.ask1("%s %s" % (im.head("dg"), esc(im.ky)))
    d = dgenc.diff_edges(dgenc.parse_edges(rep), im.edges())
    ctx.count("dg_compared")
    if d and not im.raised:
        ctx.correspondence_break("create_DG", dict(im.info(), diff=d))
    return d


def oracle_raw(ctx, im):
    """Spec.RAW (driver, from the roles) vs the implementation's instruction->instruction edges."""
    rep = ctx.driver.ask1("raw %s %s %s" % (esc("x86" if im.isa == "x86" else "a64"), esc("1" if im.fd else "0"), esc(im.ky)))
    raw = set()
    for tok in rep.split(" "):
        if tok:
            a, b = tok.split(">")
            raw.add((a, b))
    impl = {(s, d) for (s, d) in im.edges() if not s.endswith("L")}
    ctx.count("raw_checked")
    ctx.count("raw_edges", len(raw))
    missing = raw - impl
    if missing:
        s, d = sorted(missing)[0]
        ctx.violation("read-after-write dependency %s -> %s is missing from the dependency graph" % (s, d),
                      dict(im.info(), missing=sorted(missing)[:5]))
        return False
    extra = impl - raw
    # every other edge must be a store->load edge: producer stores, consumer loads
    by_line = {str(i.line_number): i for i in im.kernel}
    for s, d in sorted(extra):
        ps, pd = by_line[s], by_line[d]
        so_s, so_d = ps.semantic_operands, pd.semantic_operands
        stores = any(type(o).__name__ == "MemoryOperand" for o in so_s["destination"] + so_s["src_dst"])
        loads = any(type(o).__name__ == "MemoryOperand" for o in so_d["source"] + so_d["src_dst"])
        if not (stores and loads):
            ctx.violation("dependency edge %s -> %s is neither a register read-after-write nor a store->load pair" % (s, d),
                          dict(im.info(), extra=[s, d]))
            return False
    # forward edges
    for (s, d) in im.edges():
        if int(s.rstrip("L")) > int(d) or (int(s.rstrip("L")) == int(d) and not s.endswith("L")):
            ctx.violation("dependency edge %s -> %s does not point forward" % (s, d), dict(im.info(), edge=[s, d]))
            return False
    return True


def compare_lcd(ctx, im, floor=1000):
    rep = ctx.driver.ask1("%s %s %s" % (im.head("lcd"), esc(str(floor)), esc(im.ky)))
    model = parse_lcd(rep)
    impl = im.lcd_set()
    ctx.count("lcd_compared")
    ctx.count("lcd_cycles", len(impl))
    if not lcd_close(model, impl) and not im.raised:
        ctx.correspondence_break("loopcarried_deps", dict(im.info(), model=sorted(model), impl=sorted(impl)))
        return False
    return True


def oracle_cycles(ctx, im):
    """independent enumeration of winding-1 cycles over the reference relation of two iterations"""
    off, intra, cross = im.doubled_edges()
    lines = [i.line_number for i in im.kernel]
    rep = ctx.driver.ask1("speccycles %s %s %s" % (esc(yenc2(lines)), esc(yenc2(intra)), esc(yenc2(cross))))
    spec = parse_lcd(rep)
    impl = im.lcd_set()
    ctx.count("cycles_checked")
    if not lcd_close(spec, impl):
        only_spec = sorted(set(dict(spec)) - set(dict(impl)))
        only_impl = sorted(set(dict(impl)) - set(dict(spec)))
        what = "reported loop-carried dependencies differ from the cross-iteration cycles"
        if only_spec:
            what += ": cycle %s is not reported" % (only_spec[0],)
        elif only_impl:
            what += ": reported %s is not a cycle" % (only_impl[0],)
        else:
            what += ": latency differs"
        ctx.violation(what, dict(im.info(), expected=sorted(spec), reported=sorted(impl)))
        return False
    # summary figure
    d = im.kdg.get_loopcarried_dependencies()
    mx = max([float(v["latency"]) for v in d.values()] + [0.0])
    smx = max([l for _, l in spec] + [0.0])
    if abs(mx - smx) > 1e-6:
        ctx.violation("maximum loop-carried latency %r differs from the maximum cycle latency %r" % (mx, smx), dict(im.info()))
        return False
    # the report: the LCD column marks exactly the members of one cycle attaining the maximum, and the summary
    # row shows the maximum
    try:
        import re
        from osaca.frontend import Frontend

        fe = Frontend(arch=im.arch) if im.arch != "synisa" else None
        if fe is not None:
            text = fe.combined_view(im.kernel, im.kdg.get_critical_path(), im.kdg.get_loopcarried_dependencies())
            marked = set()
            for row in text.split("\n"):
                m = re.match(r"^\s*(\d+) \|.*\|\|\s*([-\d.]*)\s*\|\s*([-\d.]*)\s*\|", row)
                if m and m.group(3) != "":
                    marked.add(int(m.group(1)))
            ctx.count("lcd_columns_checked")
            maximal = [set(ls) for ls, lat in spec if abs(lat - smx) < 1e-6]
            if (maximal and marked not in maximal) or (not maximal and marked):
                ctx.violation("the LCD column marks lines %s, which are not the members of a maximum-latency cycle %s"
                              % (sorted(marked), [sorted(x) for x in maximal][:3]), dict(im.info(), marked=sorted(marked)))
                return False
    except Exception as e:  # noqa
        ctx.count("lcd_column_errors")
    return True


def check_cp(ctx, im):
    """C04: the reported critical path vs the model of the (repaired) code and vs Spec.longestChain."""
    impl = im.cp()
    total = sum(v for _, v in impl)
    rep = ctx.driver.ask1("%s %s" % (im.head("cptotal"), esc(im.ky)))
    ctx.count("cp_compared")
    try:
        mtotal = float(Fraction(rep))
    except Exception:  # noqa
        mtotal = None
    if (mtotal is None or abs(mtotal - total) > 1e-9) and not im.raised:
        ctx.correspondence_break("get_critical_path", dict(im.info(), impl_total=total, impl=impl, model_total=rep))
    # the marked chain: the model follows the same predecessor pointers (first maximum, first maximal predecessor);
    # networkx' predecessor order is insertion order of the edges = the model's edge order
    rep2 = ctx.driver.ask1("%s %s" % (im.head("cpmarks"), esc(im.ky)))
    try:
        mmarks = [(int(t.split(":")[0]), float(Fraction(t.split(":")[1]))) for t in rep2.split(",") if t]
    except Exception:  # noqa
        mmarks = None
    if mmarks is not None and not im.raised:
        same = len(mmarks) == len(impl) and all(a[0] == b[0] and abs(a[1] - b[1]) < 1e-9 for a, b in zip(mmarks, impl))
        if not same:
            # another chain of the same (maximal) length is as good as the model's: only a different total is a disagreement
            ctx.count("cp_marks_other_tie")
            if abs(sum(v for _, v in mmarks) - total) > 1e-9:
                ctx.correspondence_break("get_critical_path-marks", dict(im.info(), impl=impl, model=mmarks))
        else:
            ctx.count("cp_marks_equal")
    # oracle: the longest chain over the implementation's own graph
    edges = [[int(s), int(d), Fraction(*w.as_integer_ratio())] for (s, d), w in im.edges().items() if not s.endswith("L")]
    longest = float(Fraction(ctx.driver.ask1("speclongest %s %s" % (esc(yenc2(im.lat_infos())), esc(yenc2(edges))))))
    info = dict(im.info(), reported_total=total, longest_chain=longest, marked=impl)
    if total > longest + 1e-9:
        ctx.violation("critical path %.2f exceeds the longest dependency chain %.2f" % (total, longest), info)
    elif total < longest - 1e-9:
        ctx.violation("critical path %.2f is smaller than the longest dependency chain %.2f" % (total, longest), info,
                      key="cp-underreport")
        ctx.count("cp_underreports")
    # the marked lines form a chain, and their per-line CP latencies are the chain's stages
    es = im.edges()
    ln = [l for l, _ in impl]
    lat_of = {i.line_number: float(i.latency or 0) for i in im.kernel}
    for a, b in zip(ln, ln[1:]):
        if (str(a), str(b)) not in es:
            ctx.violation("critical-path lines %d and %d are not linked by a dependency" % (a, b), info)
            break
    else:
        if ln:
            want = []
            for j, l in enumerate(ln):
                v = 0.0
                if j == 0 and len(ln) > 1:
                    v += es.get(("%dL" % l, str(l)), 0.0)
                if j + 1 < len(ln):
                    v += es[(str(l), str(ln[j + 1]))]
                else:
                    v += lat_of[l]
                want.append(v)
            got = [v for _, v in impl]
            if any(abs(a - b) > 1e-9 for a, b in zip(want, got)):
                ctx.violation("per-line CP latencies %s are not the stages of the marked chain %s" % (got, want), info)
    # the value is reported more than once per analysis (text report, then --yaml-out / --export-graph / the dict
    # output all call get_critical_path again on the same instruction forms): every report must be the longest chain
    im.cp()
    again = im.cp()
    ctx.count("cp_repeated_calls")
    total3 = sum(v for _, v in again)
    if abs(total - longest) <= 1e-9 and (abs(total3 - longest) > 1e-9 or [l for l, _ in again] != ln):
        ctx.violation("critical path of a repeated call on the same kernel (as --yaml-out does after the text report) is %.2f "
                      "over lines %s; the first call gave %.2f over %s, the longest chain is %.2f"
                      % (total3, [l for l, _ in again], total, ln, longest), dict(info, third_call=again))
    maxlat = max([float(i.latency or 0) for i in im.kernel] + [0.0])
    if total < maxlat - 1e-9:
        ctx.violation("critical path %.2f is smaller than the latency %.2f of a single instruction" % (total, maxlat), info,
                      key="cp-underreport")
    return True
