"""Dependency-graph family (C03-C06, C14): kernel generators, encoding of analysed kernels for the
Lean driver, and access to the implementation's graphs."""
from fractions import Fraction

from harness import core
from harness.core import esc, frac
from harness.pressure import yenc

# --------------------------------------------------------------------------- generators
X86_GPR = [["rax", "eax", "ax", "al"], ["rbx", "ebx", "bx", "bl"], ["rcx", "ecx", "cx", "cl"], ["rdx", "edx", "dx", "dl"],
           ["rsi", "esi", "si", "sil"], ["rdi", "edi", "di", "dil"], ["rbp", "ebp", "bp", "bpl"],
           ["r8", "r8d", "r8w", "r8b"], ["r9", "r9d", "r9w", "r9b"], ["r10", "r10d", "r10w", "r10b"]]
X86_SUFFIX = ["q", "l", "w", "b"]


def x86_gpr(rng, pool, width=None):
    fam = rng.choice(pool)
    w = rng.randrange(4) if width is None else width
    return "%" + fam[w], w


def x86_mem(rng, pool, disp_choices=(0, 8, 16, -8, 64, 0x40)):
    base = "%" + rng.choice(pool)[0]
    shape = rng.choice(["b", "bd", "bis", "bisd"])
    disp = rng.choice(disp_choices)
    if shape == "b":
        return "(%s)" % base
    if shape == "bd":
        return "%d(%s)" % (disp, base)
    idx = "%" + rng.choice(pool)[0]
    sc = rng.choice([1, 2, 4, 8])
    if shape == "bis":
        return "(%s,%s,%d)" % (base, idx, sc)
    return "%d(%s,%s,%d)" % (disp, base, idx, sc)


def gen_x86_kernel(rng, n, mem=True, npool=4, vec_pool=4):
    pool = rng.sample(X86_GPR, npool)
    vregs = ["%%xmm%d" % i for i in rng.sample(range(16), vec_pool)]
    yregs = ["%%ymm%d" % i for i in range(4)]
    lines = []
    for _ in range(n):
        r = rng.random()
        w = rng.choice([0, 0, 1])
        sfx = X86_SUFFIX[w]
        if r < 0.22:
            a, _ = x86_gpr(rng, pool, w)
            b, _ = x86_gpr(rng, pool, w)
            lines.append("%s%s %s, %s" % (rng.choice(["add", "sub", "imul", "and", "or", "xor", "mov", "cmp", "test"]), sfx, a, b))
        elif r < 0.30:
            b, _ = x86_gpr(rng, pool, w)
            lines.append("%s%s $%d, %s" % (rng.choice(["add", "sub", "mov", "cmp", "shl"]), sfx, rng.choice([1, 8, 16, -8, 64]), b))
        elif r < 0.36:
            b, _ = x86_gpr(rng, pool, w)
            lines.append("%s%s %s" % (rng.choice(["inc", "dec", "neg", "not"]), sfx, b))
        elif r < 0.40:
            b, _ = x86_gpr(rng, pool, 0)
            lines.append("leaq %s, %s" % (x86_mem(rng, pool), b))
        elif r < 0.58:
            a, b, c = (rng.choice(vregs) for _ in range(3))
            lines.append("%s %s, %s, %s" % (rng.choice(["vaddpd", "vmulpd", "vsubpd", "vfmadd231pd", "vxorpd", "vpxor"]), a, b, c))
        elif r < 0.64:
            a, b = rng.choice(vregs), rng.choice(vregs)
            lines.append("%s %s, %s" % (rng.choice(["addsd", "mulsd", "movapd", "pxor", "xorps"]), a, b))
        elif r < 0.68:
            a = rng.choice(vregs)
            lines.append("%s %s, %s, %s" % (rng.choice(["vxorpd", "vpxor"]), a, a, a))  # zero idiom
        elif mem and r < 0.80:
            if rng.random() < 0.5:
                lines.append("%s %s, %s" % (rng.choice(["vmovapd", "vmovupd", "movsd"]), x86_mem(rng, pool), rng.choice(vregs)))
            else:
                lines.append("mov%s %s, %s" % (sfx, x86_mem(rng, pool), x86_gpr(rng, pool, w)[0]))
        elif mem and r < 0.90:
            if rng.random() < 0.5:
                lines.append("%s %s, %s" % (rng.choice(["vmovapd", "vmovupd", "movsd"]), rng.choice(vregs), x86_mem(rng, pool)))
            else:
                lines.append("mov%s %s, %s" % (sfx, x86_gpr(rng, pool, w)[0], x86_mem(rng, pool)))
        elif mem and r < 0.95:
            lines.append("%s%s %s, %s" % (rng.choice(["add", "sub"]), sfx, x86_gpr(rng, pool, w)[0], x86_mem(rng, pool)))  # RMW
        elif r < 0.98:
            a, b, c = (rng.choice(yregs) for _ in range(3))
            lines.append("vfmadd231pd %s, %s, %s" % (a, b, c))
        else:
            lines.append(rng.choice(["jne .L%d" % rng.randrange(3), "ja .L1", "# a comment", ".L%d:" % rng.randrange(3)]))
    return lines


A64_X = list(range(0, 12))


def a64_mem(rng, pool, allow_wb=True):
    base = "x%d" % rng.choice(pool)
    shape = rng.choice(["b", "bd", "bd", "bi", "bis", "pre", "post"] if allow_wb else ["b", "bd", "bd", "bi", "bis"])
    disp = rng.choice([8, 16, 32, -16, 64])
    if shape == "b":
        return "[%s]" % base
    if shape == "bd":
        return "[%s, #%d]" % (base, disp)
    if shape == "bi":
        return "[%s, x%d]" % (base, rng.choice(pool))
    if shape == "bis":
        return "[%s, x%d, lsl #3]" % (base, rng.choice(pool))
    if shape == "pre":
        return "[%s, #%d]!" % (base, disp)
    return "[%s], #%d" % (base, disp)


def a64_struct_access(rng, pool, vregs, base=None, index=None):
    """SIMD structure load/store -- the AArch64 instructions that allow post-indexing by a REGISTER
    (`ld1 {v0.2d}, [x1], x2`, `st1 {v3.4s}, [x4], x5`, `ld1r`, `ld2`), besides the immediate and the plain form"""
    mn = rng.choice(["ld1", "ld1", "st1", "st1", "ld1r", "ld2"])
    shape = rng.choice(["2d", "2d", "4s", "16b"])
    a = rng.choice(vregs)
    regs = "v%d.%s" % (a, shape) if mn != "ld2" else "v%d.%s, v%d.%s" % (a, shape, (a + 1) % 32, shape)
    b = base if base is not None else "x%d" % rng.choice(pool)
    tail = rng.choice(["r", "r", "r", "i", ""])
    if index is not None or tail == "r":
        return "%s {%s}, [%s], %s" % (mn, regs, b, index if index is not None else "x%d" % rng.choice(pool))
    if tail == "i":
        return "%s {%s}, [%s], #%d" % (mn, regs, b, 8 if mn == "ld1r" else (32 if mn == "ld2" else 16))
    return "%s {%s}, [%s]" % (mn, regs, b)


def gen_a64_kernel(rng, n, mem=True, npool=4):
    pool = rng.sample(A64_X, npool)
    dregs = rng.sample(range(16), 4)
    lines = []
    for _ in range(n):
        r = rng.random()
        if r < 0.2:
            w = rng.choice(["x", "x", "w"])
            a, b, c = (rng.choice(pool) for _ in range(3))
            lines.append("%s %s%d, %s%d, %s%d" % (rng.choice(["add", "sub", "mul", "and", "orr", "eor", "adds", "subs"]), w, a, w, b, w, c))
        elif r < 0.32:
            w = rng.choice(["x", "x", "w"])
            a, b = rng.choice(pool), rng.choice(pool)
            lines.append("%s %s%d, %s%d, #%d" % (rng.choice(["add", "sub", "adds", "subs"]), w, a, w, b, rng.choice([8, 16, 1, 64])))
        elif r < 0.38:
            a, b = rng.choice(pool), rng.choice(pool)
            lines.append(rng.choice(["mov x%d, x%d" % (a, b), "cmp x%d, x%d" % (a, b), "cmp w%d, #%d" % (a, 7)]))
        elif r < 0.56:
            p = rng.choice(["d", "d", "s"])
            a, b, c = (rng.choice(dregs) for _ in range(3))
            lines.append("%s %s%d, %s%d, %s%d" % (rng.choice(["fadd", "fmul", "fsub"]), p, a, p, b, p, c))
        elif r < 0.64:
            a, b, c = (rng.choice(dregs) for _ in range(3))
            lines.append("%s v%d.2d, v%d.2d, v%d.2d" % (rng.choice(["fmla", "fadd", "fmul"]), a, b, c))
        elif r < 0.68:
            a, b, c, d = (rng.choice(dregs) for _ in range(4))
            lines.append("fmadd d%d, d%d, d%d, d%d" % (a, b, c, d))
        elif mem and r < 0.80:
            p = rng.choice(["d", "q", "x"])
            reg = "%s%d" % (p, rng.choice(dregs if p != "x" else pool))
            lines.append("ldr %s, %s" % (reg, a64_mem(rng, pool)))
        elif mem and r < 0.90:
            p = rng.choice(["d", "q", "x"])
            reg = "%s%d" % (p, rng.choice(dregs if p != "x" else pool))
            lines.append("str %s, %s" % (reg, a64_mem(rng, pool)))
        elif mem and r < 0.93:
            a, b = rng.sample(dregs, 2)
            lines.append("%s d%d, d%d, %s" % (rng.choice(["ldp", "stp"]), a, b, a64_mem(rng, pool)))
        elif mem and r < 0.975:
            lines.append(a64_struct_access(rng, pool, dregs))
        else:
            lines.append(rng.choice(["b.ne .L%d" % rng.randrange(3), "bne .L2", "// a comment", ".L%d:" % rng.randrange(3)]))
    return lines


# --------------------------------------------------------------------------- encoding
def _cls(o):
    return type(o).__name__


def eqkey(o):
    """canonical text of the fields the operand's __eq__ compares"""
    n = _cls(o)
    if o is None:
        return "None"
    if n == "RegisterOperand":
        return "R(%s)" % ",".join(repr(getattr(o, a, None)) for a in ("_name", "_width", "_prefix", "_regtype", "_lanes", "_shape", "_index", "_mask", "_zeroing"))
    if n == "ImmediateOperand":
        return "I(%s)" % ",".join(repr(getattr(o, a, None)) for a in ("_identifier", "_imd_type", "_value", "_shift"))
    if n == "MemoryOperand":
        return "M(%s,%s,%s,%r,%r,%r,%r,%r,%r)" % (eqkey(o._offset), eqkey(o._base), eqkey(o._index), o._scale, o._segment_ext,
                                                  o._mask, o._pre_indexed, o._post_indexed, o._indexed_val)
    if n == "IdentifierOperand":
        # the class has no __eq__: `==` is identity (two stores through `foo(%rip)` are NOT equal operands)
        return "Id@%d" % id(o)
    return repr(o)


def symkey(o):
    """what the repaired `is_memload` compares of a symbolic displacement: name, constant offset, relocation"""
    return "Id(%r,%r,%r)" % (getattr(o, "_name", None), getattr(o, "_offset", None), getattr(o, "_relocation", None))


def reg_y(r):
    if r is None or _cls(r) != "RegisterOperand":
        return None
    return [r.prefix or "", r.name or ""]


def op_y(o):
    n = _cls(o)
    if n == "RegisterOperand":
        post = o.post_indexed
        return ["r", o.prefix or "", o.name or "", bool(o.pre_indexed), bool(post) or isinstance(post, dict)]
    if n == "FlagOperand":
        return ["f", o.name]
    if n == "MemoryOperand":
        off = o.offset
        offv = None
        if _cls(off) == "ImmediateOperand" and off.value is not None and isinstance(off.value, int):
            offv = off.value
        elif _cls(off) == "IdentifierOperand":
            offv = ["sym", symkey(off)]          # DG.Mem.sym: comparable only with the very same symbol
        elif off is not None:
            offv = "id"
        post = o.post_indexed
        return ["m", reg_y(o.base), reg_y(o.index), int(o.scale) if o.scale is not None else 1, offv,
                bool(o.pre_indexed), bool(post) or isinstance(post, dict), eqkey(o)]
    return ["o"]


def changes_y(d):
    out = []
    for reg, ch in d.items():
        if ch is None or not isinstance(ch, dict) or ch.get("value") is None or "name" not in ch:
            out.append([reg, None])
        else:
            out.append([reg, [ch["name"], int(ch["value"])]])
    return out


def ins_y(ins, sem):
    from osaca.semantics import INSTR_FLAGS

    so = ins.semantic_operands or {"source": [], "destination": [], "src_dst": []}
    try:
        ch = changes_y(sem.get_reg_changes(ins))
    except Exception:  # noqa  (pre-indexed with operation: ValueError in the implementation)
        ch = "raise"
    try:
        chp = changes_y(sem.get_reg_changes(ins, True))
    except Exception:  # noqa
        chp = "raise"

    def num(x):
        return Fraction(*float(x).as_integer_ratio()) if x is not None else None

    return [ins.line_number, num(ins.latency if ins.latency is not None else 0.0), num(ins.latency_wo_load),
            INSTR_FLAGS.HAS_LD in ins.flags, INSTR_FLAGS.LD in ins.flags,
            [op_y(o) for o in so["source"]], [op_y(o) for o in so["destination"]], [op_y(o) for o in so["src_dst"]],
            ch if ch != "raise" else [], chp if chp != "raise" else []], (ch == "raise" or chp == "raise")


def yenc2(v):
    """yenc with Fractions"""
    if isinstance(v, Fraction):
        return "R%s;" % (str(v.numerator) if v.denominator == 1 else "%d/%d" % (v.numerator, v.denominator))
    if isinstance(v, (list, tuple)):
        return "L" + "".join(yenc2(e) for e in v) + "E"
    return yenc(v)


def kernel_y(kernel, sem):
    rows, raised = [], False
    for ins in kernel:
        y, r = ins_y(ins, sem)
        rows.append(y)
        raised = raised or r
    return yenc2(rows), raised


def node_s(n):
    return "%dL" % int(n) if int(n) != n else "%d" % int(n)


def impl_edges(dg):
    """canonical {(src, dst): weight} of a networkx graph built by create_DG"""
    out = {}
    for s, d, data in dg.edges(data=True):
        out[(node_s(s), node_s(d))] = float(data["latency"])
    return out


def parse_edges(reply):
    out = {}
    for tok in reply.split(" "):
        if not tok:
            continue
        sd, w = tok.split("=")
        s, d = sd.split(">")
        out[(s, d)] = Fraction(w)
    return out


def diff_edges(model, impl, tol=1e-9):
    """None if equal, else description"""
    for k in sorted(set(model) | set(impl)):
        if k not in model:
            return "edge %s>%s (w=%r) only in the implementation" % (k[0], k[1], impl[k])
        if k not in impl:
            return "edge %s>%s (w=%s) only in the model" % (k[0], k[1], float(model[k]))
        if abs(float(model[k]) - impl[k]) > tol:
            return "edge %s>%s: weight model %s impl %r" % (k[0], k[1], float(model[k]), impl[k])
    return None


def model_params(mm):
    stlf = mm.get("store_to_load_forward_latency", 0)
    pidx = mm.get("p_index_latency", 1)
    return frac(float(stlf if stlf is not None else 0)), frac(float(pidx if pidx is not None else 1))


# --------------------------------------------------------------------------- store/load kernels (C06)
# The generators keep their own symbolic bookkeeping (a third implementation, independent of OSACA and of the
# Lean model): every register holds `origin + delta` of a register value at the time of the store, or is unknown.
def _sym_addr(sym, base, idx, scale, disp):
    """symbolic address {origin: coefficient} + constant, or None if a register is unknown"""
    terms, const = {}, disp
    for reg, coef in ((base, 1), (idx, scale)):
        if reg is None:
            continue
        v = sym.get(reg, (reg, 0))
        if v is None:
            return None
        terms[v[0]] = terms.get(v[0], 0) + coef
        const += v[1] * coef
    return {k: c for k, c in terms.items() if c}, const


def gen_memdep_x86(rng):
    """store; 0-4 pointer bumps / copies / clobbers on any register holding the base or index; load."""
    fams = rng.sample(X86_GPR[:8], 6)
    base, idx, other, c1, val, c2 = ("%" + f[0] for f in fams)
    shape = rng.choice(["b", "bd", "bisd", "bis"])
    # symbolic displacements (`foo(%rax)`, `foo+8(%rax,%rbx,4)`, `foo(%rip)`): a symbol is an unknown constant -- the
    # locations are provably the same only for the very same symbol text on both sides (and equal tracked registers)
    ssym = lsym = None
    rip = False
    if rng.random() < 0.22:
        pair = rng.choice(["same", "same", "diff", "store_only", "load_only"])
        a, b_ = rng.sample(["foo", "bar", "foo+8", ".LC0", "tab-16"], 2)
        ssym = a if pair != "load_only" else None
        lsym = {"same": a, "diff": b_, "store_only": None, "load_only": a}[pair]
        shape = rng.choice(["bd", "bisd"])
        rip = pair in ("same", "diff") and rng.random() < 0.35
        if rip:
            shape, base = "bd", "%rip"
    has_idx = shape in ("bis", "bisd")
    d0 = rng.choice([0, 8, 16, -8, 32, 0x40])
    sc = rng.choice([1, 2, 4, 8])

    def addr(b, i, s_, disp):
        if isinstance(disp, str):
            return "%s(%s)" % (disp, b) if not has_idx else "%s(%s,%s,%d)" % (disp, b, i, s_)
        if not has_idx:
            return "(%s)" % b if (disp == 0 and shape == "b") else "%d(%s)" % (disp, b)
        return "(%s,%s,%d)" % (b, i, s_) if (disp == 0 and shape == "bis") else "%d(%s,%s,%d)" % (disp, b, i, s_)

    # the store: a plain store, or a read-modify-write whose hidden flag destinations precede the memory destination
    sd = ssym if ssym is not None else d0       # the store's displacement as written
    lines = [rng.choice(["movq %s, %s" % (val, addr(base, idx, sc, sd)), "vmovsd %%xmm1, %s" % addr(base, idx, sc, sd),
                         "addq %s, %s" % (val, addr(base, idx, sc, sd)), "subq $1, %s" % addr(base, idx, sc, sd)])]
    sym = {}                                    # reg -> (origin, delta) | None
    store_addr = _sym_addr(sym, base, idx if has_idx else None, sc, 0 if ssym is not None else d0)
    holders_b, holders_i = [base], [idx]        # registers currently derived from base / index
    second = False
    symbolic = ssym is not None or lsym is not None
    for _ in range(rng.choice([0, 0, 1, 1, 2, 3, 4] if not symbolic else [0, 0, 0, 1, 1, 2])):
        r = rng.random()
        if rip:
            r = 0.90 if r < 0.94 else r          # nothing computes with %rip: unrelated instructions or a second store
        pool = holders_b + (holders_i if has_idx else [])
        reg = rng.choice(pool)
        if r < 0.30:
            k = rng.choice([8, 16, 1, 64, -8])
            lines.append("addq $%d, %s" % (k, reg))
            v = sym.get(reg, (reg, 0))
            sym[reg] = None if v is None else (v[0], v[1] + k)
        elif r < 0.45:
            k = rng.choice([8, 16, 1])
            lines.append("subq $%d, %s" % (k, reg))
            v = sym.get(reg, (reg, 0))
            sym[reg] = None if v is None else (v[0], v[1] - k)
        elif r < 0.55:
            lines.append("%s %s" % (rng.choice(["incq", "decq"]), reg))
            v = sym.get(reg, (reg, 0))
            sym[reg] = None if v is None else (v[0], v[1] + (1 if lines[-1].startswith("inc") else -1))
        elif r < 0.80:
            c = c1 if reg in holders_b else c2
            if c == reg:
                continue
            # (a fresh copy INTO a clobbered register makes it known again: the repaired sticky unknown, notes/C06.md)
            lines.append("movq %s, %s" % (reg, c))         # register copy; both stay usable afterwards
            sym[c] = sym.get(reg, (reg, 0))
            (holders_b if reg in holders_b else holders_i).append(c) if c not in pool else None
        elif r < 0.88:
            # (once a copy of the store's own base / index exists, the ORIGINAL is the one overwritten: the copy outlives it)
            reg = base if len(holders_b) > 1 and not rip else idx if (has_idx and len(holders_i) > 1) else reg
            lines.append("leaq 8(%s), %s" % (reg, reg))    # a change OSACA cannot reconstruct
            sym[reg] = None
        elif r < 0.94:
            lines.append("addq %s, %s" % (other, other))   # unrelated
        else:
            lines.append("movq %s, %s" % (val, addr(base, idx, sc, sd)))   # a second store to the very same operand
            second = True
    lb = rng.choice(holders_b)
    li = rng.choice(holders_i) if has_idx else None
    if rng.random() < 0.12 and not rip:
        lb = other                                                           # unrelated base register
    lsc = sc if (not has_idx or rng.random() < 0.85) else rng.choice([x for x in (1, 2, 4, 8) if x != sc])
    # choose the displacement so that the addresses coincide (if they can), or not
    want_same = rng.random() < 0.6
    probe = _sym_addr(sym, lb, li, lsc, 0)
    if symbolic:
        # symbol against symbol: same location iff the same symbol and the register parts agree (nothing to adjust);
        # symbol against number (or nothing): never provably the same
        dl = lsym if lsym is not None else rng.choice([0, 8, 16])
        la = addr(lb, li, lsc, dl)
        same = ssym is not None and ssym == lsym and probe is not None and probe == store_addr
        lines.append(rng.choice(["movq %s, %%r11" % la, "vmovsd %s, %%xmm2" % la, "addq %s, %%r11" % la]))
        lines.append("addq %r11, %r12")
        return lines, {"same_location": same, "known": probe is not None, "second_store": second,
                       "symbolic": {"store": ssym, "load": lsym}}
    if probe is not None and store_addr is not None and probe[0] == store_addr[0]:
        dl = store_addr[1] - probe[1]
        if not want_same:
            dl += rng.choice([8, -8, 16, 1])
    else:
        dl = rng.choice([0, 8, 16])
    if shape == "b" and dl != 0:
        la = "%d(%s)" % (dl, lb)
    elif shape == "bis" and dl != 0:
        la = "%d(%s,%s,%d)" % (dl, lb, li, lsc)
    else:
        la = addr(lb, li, lsc, dl)
    la_sym = _sym_addr(sym, lb, li, lsc, dl)
    same = la_sym is not None and store_addr is not None and la_sym == store_addr
    lines.append(rng.choice(["movq %s, %%r11" % la, "vmovsd %s, %%xmm2" % la, "addq %s, %%r11" % la]))
    lines.append("addq %r11, %r12")
    return lines, {"same_location": same, "known": la_sym is not None, "second_store": second}


def gen_memdep_a64(rng):
    regs = rng.sample([1, 2, 3, 4, 5, 6, 7, 8, 11, 12], 6)   # x9/x10 are the load's destination / consumer
    base, idx, other, c1, val, c2 = ("x%d" % r for r in regs)
    shape = rng.choice(["b", "bd", "bi", "bis"])
    has_idx = shape in ("bi", "bis")
    # symbolic displacements (`[x2, #:lo12:foo]`): see gen_memdep_x86
    ssym = lsym = None
    wb = None                                   # write-back of the store itself: "post" (`[x2], #8`) / "pre" (`[x2, #8]!`)
    mode = rng.random()
    if mode < 0.18:
        pair = rng.choice(["same", "same", "diff", "store_only", "load_only"])
        a, b_ = rng.sample([":lo12:foo", ":lo12:bar", ":lo12:foo+8", ":lo12:.LC0"], 2)
        ssym = a if pair != "load_only" else None
        lsym = {"same": a, "diff": b_, "store_only": None, "load_only": a}[pair]
        shape = "bd"
    elif mode < 0.40:
        wb = rng.choice(["post", "post", "pre"])
        shape = "bd"
    symbolic = ssym is not None or lsym is not None
    has_idx = shape in ("bi", "bis")
    d0 = rng.choice([0, 8, 16, 32, -16]) if not has_idx else 0
    sh = rng.choice([2, 3]) if shape == "bis" else 0

    def addr(b, i, shift, disp):
        if isinstance(disp, str):
            return "[%s, #%s]" % (b, disp)
        if not has_idx:
            return "[%s]" % b if (disp == 0 and shape == "b") else "[%s, #%d]" % (b, disp)
        return "[%s, %s]" % (b, i) if shift == 0 else "[%s, %s, lsl #%d]" % (b, i, shift)

    sd = ssym if ssym is not None else d0
    sym = {}
    if wb is None:
        lines = [rng.choice(["str %s, %s" % (val, addr(base, idx, sh, sd)), "str d1, %s" % addr(base, idx, sh, sd)])]
        store_addr = _sym_addr(sym, base, idx if has_idx else None, 2 ** sh, 0 if ssym is not None else d0)
    else:
        # the architecture: a post-indexed access uses the OLD base, a pre-indexed one the updated base; afterwards the
        # base register holds old + k in both cases
        k = rng.choice([8, 16, 32, -16])
        sreg = rng.choice([val, "d1"])
        lines = ["str %s, [%s], #%d" % (sreg, base, k) if wb == "post" else "str %s, [%s, #%d]!" % (sreg, base, k)]
        store_addr = _sym_addr(sym, base, None, 1, 0 if wb == "post" else k)
        sym[base] = (base, k)
    holders_b, holders_i = [base], [idx]
    second = False
    base_rewritten = False                      # write-back store only: its base register is written again before the load
    reg_post = set()                            # registers post-indexed by a register after the store, and their copies
    nops = rng.choice([0, 0, 1, 1, 2, 3, 4] if not symbolic else [0, 0, 0, 1, 1, 2])
    if wb is not None:
        nops = max(nops, 1)
    for step in range(nops):
        r = rng.random()
        if wb is not None and step == 0 and r < 0.85:
            r = rng.choice([0.58, 0.70, 0.75])   # first a copy of the written-back base (`mov` / `add xC, xB, #k`)
        if wb is not None and r >= 0.90:
            r = 0.70                             # no second store with write-back (it would move the base once more)
        pool = holders_b + (holders_i if has_idx else [])
        reg = rng.choice(pool)
        v = sym.get(reg, (reg, 0))
        if wb is not None and reg == base and (r < 0.56 or 0.80 <= r < 0.90):
            base_rewritten = True
        if r < 0.25:
            k = rng.choice([8, 16, 64])
            if rng.random() < 0.25:
                # arithmetic immediate with a shift: `#1, lsl #12` is 4096 (the parser folds the shift into the value)
                k = rng.choice([1, 2]) << 12
                lines.append("add %s, %s, #%d, lsl #12" % (reg, reg, k >> 12))
            else:
                lines.append("add %s, %s, #%d" % (reg, reg, k))
            sym[reg] = None if v is None else (v[0], v[1] + k)
        elif r < 0.40:
            k = rng.choice([8, 16])
            if rng.random() < 0.25:
                k = 1 << 12
                lines.append("sub %s, %s, #1, lsl #12" % (reg, reg))
            else:
                lines.append("sub %s, %s, #%d" % (reg, reg, k))
            sym[reg] = None if v is None else (v[0], v[1] - k)
        elif r < 0.47:
            k = rng.choice([8, 16, 32])
            lines.append("ldr d5, [%s], #%d" % (reg, k))          # post-indexed access bumps the register
            sym[reg] = None if v is None else (v[0], v[1] + k)
        elif r < 0.56:
            # post-indexed by a REGISTER (`ld1 {v5.2d}, [x1], x2`, `st1 {v3.4s}, [x4], x5`): the register moves by an amount
            # that is not known statically -- from here on nothing can be said about addresses formed with it
            lines.append(a64_struct_access(rng, None, [3, 5, 6, 7], base=reg, index=rng.choice([other, "x13", "x14"])))
            sym[reg] = None
            reg_post.add(reg)
        elif r < 0.62:
            k = rng.choice([8, 16])
            c = c1 if reg in holders_b else c2
            if c == reg:
                continue
            # (a fresh copy INTO a clobbered register makes it known again: the repaired sticky unknown, notes/C06.md)
            lines.append("add %s, %s, #%d" % (c, reg, k))         # copy with increment
            sym[c] = None if v is None else (v[0], v[1] + k)
            (reg_post.add if reg in reg_post else reg_post.discard)(c)    # a copy inherits where its value comes from
            if c not in pool:
                (holders_b if reg in holders_b else holders_i).append(c)
        elif r < 0.80:
            c = c1 if reg in holders_b else c2
            if c == reg:
                continue
            # (a fresh copy INTO a clobbered register makes it known again: the repaired sticky unknown, notes/C06.md)
            lines.append("mov %s, %s" % (c, reg))
            sym[c] = v
            (reg_post.add if reg in reg_post else reg_post.discard)(c)    # a copy inherits where its value comes from
            if c not in pool:
                (holders_b if reg in holders_b else holders_i).append(c)
        elif r < 0.90:
            if wb is None:
                # (once a copy of the store's own base / index exists, the ORIGINAL is the one overwritten)
                reg = base if len(holders_b) > 1 else idx if (has_idx and len(holders_i) > 1) else reg
            lines.append("mul %s, %s, %s" % (reg, reg, other))    # unknown change
            sym[reg] = None
        else:
            lines.append("str %s, %s" % (val, addr(base, idx, sh, sd)))
            second = True
    lb = rng.choice(holders_b)
    if wb is not None and len(holders_b) > 1 and rng.random() < 0.8:
        lb = rng.choice(holders_b[1:])           # through a copy: no register dependency hides the memory dependency
    li = rng.choice(holders_i) if has_idx else None
    if rng.random() < 0.12:
        lb = other
    lsh = sh if (shape != "bis" or rng.random() < 0.85) else (5 - sh)
    want_same = rng.random() < 0.6
    if symbolic:
        dl = lsym if lsym is not None else rng.choice([0, 8, 16])
        la = addr(lb, None, 0, dl)
        probe = _sym_addr(sym, lb, None, 1, 0)
        same = ssym is not None and ssym == lsym and probe is not None and probe == store_addr
        lines.append(rng.choice(["ldr x9, %s" % la, "ldr d2, %s" % la]))
        lines.append("add x10, x9, x9")
        through = [x for x in (lb,) if x in reg_post]
        return lines, {"same_location": same, "known": probe is not None, "second_store": second,
                       "register_post_index": sorted(reg_post), "load_through_unknown": bool(through),
                       "symbolic": {"store": ssym, "load": lsym}}
    if has_idx:
        dl = 0
        la = addr(lb, li, lsh, 0)
    else:
        probe = _sym_addr(sym, lb, None, 1, 0)
        if probe is not None and probe[0] == store_addr[0]:
            dl = store_addr[1] - probe[1]
            if not want_same:
                dl += rng.choice([8, -8, 16])
        else:
            dl = rng.choice([0, 8, 16])
        la = "[%s]" % lb if (dl == 0 and shape == "b") else "[%s, #%d]" % (lb, dl)
    la_sym = _sym_addr(sym, lb, li, 2 ** lsh, dl)
    same = la_sym is not None and la_sym == store_addr
    lines.append(rng.choice(["ldr x9, %s" % la, "ldr d2, %s" % la]))
    lines.append("add x10, x9, x9")
    # does the load form its address with a register whose value stems (also through copies) from one that was
    # post-indexed by a register?  Then the address is unknown (`sym` says so as well) and no dependency is demanded
    through = [x for x in (lb, li) if x is not None and x in reg_post]
    meta = {"same_location": same, "known": la_sym is not None, "second_store": second,
            "register_post_index": sorted(reg_post), "load_through_unknown": bool(through)}
    if wb is not None:
        # the store writes its base register: a load that reads this register itself (not a copy) depends on the store
        # through the register anyway, and a later write to it ends the scan of the implementation (both: not judged)
        meta.update(store_writeback=wb, wb_base_rewritten=base_rewritten,
                    register_edge_to_load=(lb == base and not base_rewritten))
    return lines, meta
