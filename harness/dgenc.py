"""Dependency-graph family (C03-C06, C14): kernel generators, encoding of analysed kernels for the
Lean driver, and access to the implementation's graphs."""
from fractions import Fraction

from harness import core
from harness.core import esc, frac
from harness.pressure import yenc

# --------------------------------------------------------------------------- generators
X86_GPR = [["rax", "eax", "ax", "al"], ["rbx", "ebx", "bx", "bl"], ["rcx", "ecx", "cx", "cl"], ["rdx", "edx", "dx", "dl"],
           ["rsi", "esi", "si", "sil"], ["rdi", "edi", "di", "dil"], ["rbp", "ebp", "bp", "bpl"],
           ["r8", "r8d", "r8w", "r8b"], ["r9", "r9d", "r9w", "r9b"], ["r10", "r10d", "r10w", "r10b"]]
X86_SUFFIX = ["q", "l", "w", "b"]


def x86_gpr(rng, pool, width=None):
    fam = rng.choice(pool)
    w = rng.randrange(4) if width is None else width
    return "%" + fam[w], w


def x86_mem(rng, pool, disp_choices=(0, 8, 16, -8, 64, 0x40)):
    base = "%" + rng.choice(pool)[0]
    shape = rng.choice(["b", "bd", "bis", "bisd"])
    disp = rng.choice(disp_choices)
    if shape == "b":
        return "(%s)" % base
    if shape == "bd":
        return "%d(%s)" % (disp, base)
    idx = "%" + rng.choice(pool)[0]
    sc = rng.choice([1, 2, 4, 8])
    if shape == "bis":
        return "(%s,%s,%d)" % (base, idx, sc)
    return "%d(%s,%s,%d)" % (disp, base, idx, sc)


def gen_x86_kernel(rng, n, mem=True, npool=4, vec_pool=4):
    pool = rng.sample(X86_GPR, npool)
    vregs = ["%%xmm%d" % i for i in rng.sample(range(16), vec_pool)]
    yregs = ["%%ymm%d" % i for i in range(4)]
    lines = []
    for _ in range(n):
        r = rng.random()
        w = rng.choice([0, 0, 1])
        sfx = X86_SUFFIX[w]
        if r < 0.22:
            a, _ = x86_gpr(rng, pool, w)
            b, _ = x86_gpr(rng, pool, w)
            lines.append("%s%s %s, %s" % (rng.choice(["add", "sub", "imul", "and", "or", "xor", "mov", "cmp", "test"]), sfx, a, b))
        elif r < 0.30:
            b, _ = x86_gpr(rng, pool, w)
            lines.append("%s%s $%d, %s" % (rng.choice(["add", "sub", "mov", "cmp", "shl"]), sfx, rng.choice([1, 8, 16, -8, 64]), b))
        elif r < 0.36:
            b, _ = x86_gpr(rng, pool, w)
            lines.append("%s%s %s" % (rng.choice(["inc", "dec", "neg", "not"]), sfx, b))
        elif r < 0.40:
            b, _ = x86_gpr(rng, pool, 0)
            lines.append("leaq %s, %s" % (x86_mem(rng, pool), b))
        elif r < 0.58:
            a, b, c = (rng.choice(vregs) for _ in range(3))
            lines.append("%s %s, %s, %s" % (rng.choice(["vaddpd", "vmulpd", "vsubpd", "vfmadd231pd", "vxorpd", "vpxor"]), a, b, c))
        elif r < 0.64:
            a, b = rng.choice(vregs), rng.choice(vregs)
            lines.append("%s %s, %s" % (rng.choice(["addsd", "mulsd", "movapd", "pxor", "xorps"]), a, b))
        elif r < 0.68:
            a = rng.choice(vregs)
            lines.append("%s %s, %s, %s" % (rng.choice(["vxorpd", "vpxor"]), a, a, a))  # zero idiom
        elif mem and r < 0.80:
            if rng.random() < 0.5:
                lines.append("%s %s, %s" % (rng.choice(["vmovapd", "vmovupd", "movsd"]), x86_mem(rng, pool), rng.choice(vregs)))
            else:
                lines.append("mov%s %s, %s" % (sfx, x86_mem(rng, pool), x86_gpr(rng, pool, w)[0]))
        elif mem and r < 0.90:
            if rng.random() < 0.5:
                lines.append("%s %s, %s" % (rng.choice(["vmovapd", "vmovupd", "movsd"]), rng.choice(vregs), x86_mem(rng, pool)))
            else:
                lines.append("mov%s %s, %s" % (sfx, x86_gpr(rng, pool, w)[0], x86_mem(rng, pool)))
        elif mem and r < 0.95:
            lines.append("%s%s %s, %s" % (rng.choice(["add", "sub"]), sfx, x86_gpr(rng, pool, w)[0], x86_mem(rng, pool)))  # RMW
        elif r < 0.98:
            a, b, c = (rng.choice(yregs) for _ in range(3))
            lines.append("vfmadd231pd %s, %s, %s" % (a, b, c))
        else:
            lines.append(rng.choice(["jne .L%d" % rng.randrange(3), "ja .L1", "# a comment", ".L%d:" % rng.randrange(3)]))
    return lines


A64_X = list(range(0, 12))


def a64_mem(rng, pool, allow_wb=True):
    base = "x%d" % rng.choice(pool)
    shape = rng.choice(["b", "bd", "bd", "bi", "bis", "pre", "post"] if allow_wb else ["b", "bd", "bd", "bi", "bis"])
    disp = rng.choice([8, 16, 32, -16, 64])
    if shape == "b":
        return "[%s]" % base
    if shape == "bd":
        return "[%s, #%d]" % (base, disp)
    if shape == "bi":
        return "[%s, x%d]" % (base, rng.choice(pool))
    if shape == "bis":
        return "[%s, x%d, lsl #3]" % (base, rng.choice(pool))
    if shape == "pre":
        return "[%s, #%d]!" % (base, disp)
    return "[%s], #%d" % (base, disp)


def gen_a64_kernel(rng, n, mem=True, npool=4):
    pool = rng.sample(A64_X, npool)
    dregs = rng.sample(range(16), 4)
    lines = []
    for _ in range(n):
        r = rng.random()
        if r < 0.2:
            w = rng.choice(["x", "x", "w"])
            a, b, c = (rng.choice(pool) for _ in range(3))
            lines.append("%s %s%d, %s%d, %s%d" % (rng.choice(["add", "sub", "mul", "and", "orr", "eor", "adds", "subs"]), w, a, w, b, w, c))
        elif r < 0.32:
            w = rng.choice(["x", "x", "w"])
            a, b = rng.choice(pool), rng.choice(pool)
            lines.append("%s %s%d, %s%d, #%d" % (rng.choice(["add", "sub", "adds", "subs"]), w, a, w, b, rng.choice([8, 16, 1, 64])))
        elif r < 0.38:
            a, b = rng.choice(pool), rng.choice(pool)
            lines.append(rng.choice(["mov x%d, x%d" % (a, b), "cmp x%d, x%d" % (a, b), "cmp w%d, #%d" % (a, 7)]))
        elif r < 0.56:
            p = rng.choice(["d", "d", "s"])
            a, b, c = (rng.choice(dregs) for _ in range(3))
            lines.append("%s %s%d, %s%d, %s%d" % (rng.choice(["fadd", "fmul", "fsub"]), p, a, p, b, p, c))
        elif r < 0.64:
            a, b, c = (rng.choice(dregs) for _ in range(3))
            lines.append("%s v%d.2d, v%d.2d, v%d.2d" % (rng.choice(["fmla", "fadd", "fmul"]), a, b, c))
        elif r < 0.68:
            a, b, c, d = (rng.choice(dregs) for _ in range(4))
            lines.append("fmadd d%d, d%d, d%d, d%d" % (a, b, c, d))
        elif mem and r < 0.80:
            p = rng.choice(["d", "q", "x"])
            reg = "%s%d" % (p, rng.choice(dregs if p != "x" else pool))
            lines.append("ldr %s, %s" % (reg, a64_mem(rng, pool)))
        elif mem and r < 0.92:
            p = rng.choice(["d", "q", "x"])
            reg = "%s%d" % (p, rng.choice(dregs if p != "x" else pool))
            lines.append("str %s, %s" % (reg, a64_mem(rng, pool)))
        elif mem and r < 0.96:
            a, b = rng.sample(dregs, 2)
            lines.append("%s d%d, d%d, %s" % (rng.choice(["ldp", "stp"]), a, b, a64_mem(rng, pool)))
        else:
            lines.append(rng.choice(["b.ne .L%d" % rng.randrange(3), "bne .L2", "// a comment", ".L%d:" % rng.randrange(3)]))
    return lines


# --------------------------------------------------------------------------- encoding
def _cls(o):
    return type(o).__name__


def eqkey(o):
    """canonical text of the fields the operand's __eq__ compares"""
    n = _cls(o)
    if o is None:
        return "None"
    if n == "RegisterOperand":
        return "R(%s)" % ",".join(repr(getattr(o, a, None)) for a in ("_name", "_width", "_prefix", "_regtype", "_lanes", "_shape", "_index", "_mask", "_zeroing"))
    if n == "ImmediateOperand":
        return "I(%s)" % ",".join(repr(getattr(o, a, None)) for a in ("_identifier", "_imd_type", "_value", "_shift"))
    if n == "MemoryOperand":
        return "M(%s,%s,%s,%r,%r,%r,%r,%r,%r)" % (eqkey(o._offset), eqkey(o._base), eqkey(o._index), o._scale, o._segment_ext,
                                                  o._mask, o._pre_indexed, o._post_indexed, o._indexed_val)
    if n == "IdentifierOperand":
        return "Id(%r,%r,%r)" % (getattr(o, "_name", None), getattr(o, "_offset", None), getattr(o, "_relocation", None))
    return repr(o)


def reg_y(r):
    if r is None or _cls(r) != "RegisterOperand":
        return None
    return [r.prefix or "", r.name or ""]


def op_y(o):
    n = _cls(o)
    if n == "RegisterOperand":
        post = o.post_indexed
        return ["r", o.prefix or "", o.name or "", bool(o.pre_indexed), bool(post) or isinstance(post, dict)]
    if n == "FlagOperand":
        return ["f", o.name]
    if n == "MemoryOperand":
        off = o.offset
        offv = None
        if _cls(off) == "ImmediateOperand" and off.value is not None and isinstance(off.value, int):
            offv = off.value
        elif off is not None:
            offv = "id"
        post = o.post_indexed
        return ["m", reg_y(o.base), reg_y(o.index), int(o.scale) if o.scale is not None else 1, offv,
                bool(o.pre_indexed), bool(post) or isinstance(post, dict), eqkey(o)]
    return ["o"]


def changes_y(d):
    out = []
    for reg, ch in d.items():
        if ch is None or not isinstance(ch, dict) or ch.get("value") is None or "name" not in ch:
            out.append([reg, None])
        else:
            out.append([reg, [ch["name"], int(ch["value"])]])
    return out


def ins_y(ins, sem):
    from osaca.semantics import INSTR_FLAGS

    so = ins.semantic_operands or {"source": [], "destination": [], "src_dst": []}
    try:
        ch = changes_y(sem.get_reg_changes(ins))
    except Exception:  # noqa  (pre-indexed with operation: ValueError in the implementation)
        ch = "raise"
    try:
        chp = changes_y(sem.get_reg_changes(ins, True))
    except Exception:  # noqa
        chp = "raise"

    def num(x):
        return Fraction(*float(x).as_integer_ratio()) if x is not None else None

    return [ins.line_number, num(ins.latency if ins.latency is not None else 0.0), num(ins.latency_wo_load),
            INSTR_FLAGS.HAS_LD in ins.flags, INSTR_FLAGS.LD in ins.flags,
            [op_y(o) for o in so["source"]], [op_y(o) for o in so["destination"]], [op_y(o) for o in so["src_dst"]],
            ch if ch != "raise" else [], chp if chp != "raise" else []], (ch == "raise" or chp == "raise")


def yenc2(v):
    """yenc with Fractions"""
    if isinstance(v, Fraction):
        return "R%s;" % (str(v.numerator) if v.denominator == 1 else "%d/%d" % (v.numerator, v.denominator))
    if isinstance(v, (list, tuple)):
        return "L" + "".join(yenc2(e) for e in v) + "E"
    return yenc(v)


def kernel_y(kernel, sem):
    rows, raised = [], False
    for ins in kernel:
        y, r = ins_y(ins, sem)
        rows.append(y)
        raised = raised or r
    return yenc2(rows), raised


def node_s(n):
    return "%dL" % int(n) if int(n) != n else "%d" % int(n)


def impl_edges(dg):
    """canonical {(src, dst): weight} of a networkx graph built by create_DG"""
    out = {}
    for s, d, data in dg.edges(data=True):
        out[(node_s(s), node_s(d))] = float(data["latency"])
    return out


def parse_edges(reply):
    out = {}
    for tok in reply.split(" "):
        if not tok:
            continue
        sd, w = tok.split("=")
        s, d = sd.split(">")
        out[(s, d)] = Fraction(w)
    return out


def diff_edges(model, impl, tol=1e-9):
    """None if equal, else description"""
    for k in sorted(set(model) | set(impl)):
        if k not in model:
            return "edge %s>%s (w=%r) only in the implementation" % (k[0], k[1], impl[k])
        if k not in impl:
            return "edge %s>%s (w=%s) only in the model" % (k[0], k[1], float(model[k]))
        if abs(float(model[k]) - impl[k]) > tol:
            return "edge %s>%s: weight model %s impl %r" % (k[0], k[1], float(model[k]), impl[k])
    return None


def model_params(mm):
    stlf = mm.get("store_to_load_forward_latency", 0)
    pidx = mm.get("p_index_latency", 1)
    return frac(float(stlf if stlf is not None else 0)), frac(float(pidx if pidx is not None else 1))


# --------------------------------------------------------------------------- store/load kernels (C06)
def gen_memdep_x86(rng):
    """store; 0-3 pointer bumps / copies / clobbers; load.  Returns (lines, meta)."""
    fams = rng.sample(X86_GPR[:8], 6)
    base, idx, other, cpy, val, cpy2 = ("%" + f[0] for f in fams)
    shape = rng.choice(["b", "bd", "bisd", "bis"])
    d0 = rng.choice([0, 8, 16, -8, 32, 0x40])
    sc = rng.choice([1, 2, 4, 8])

    def addr(b, i, disp):
        if shape == "b":
            return "(%s)" % b if disp == 0 else "%d(%s)" % (disp, b)
        if shape == "bd":
            return "%d(%s)" % (disp, b)
        if shape == "bis":
            return "(%s,%s,%d)" % (b, i, sc) if disp == 0 else "%d(%s,%s,%d)" % (disp, b, i, sc)
        return "%d(%s,%s,%d)" % (disp, b, i, sc)

    lines = [rng.choice(["movq %s, %s" % (val, addr(base, idx, d0)), "vmovsd %%xmm1, %s" % addr(base, idx, d0)])]
    delta_b = delta_i = 0
    cur_base, cur_idx = base, idx
    known = True
    for _ in range(rng.choice([0, 0, 1, 1, 2, 3])):
        r = rng.random()
        tgt = rng.choice(["b", "i"]) if shape in ("bis", "bisd") else "b"
        reg = cur_base if tgt == "b" else cur_idx
        if r < 0.35:
            k = rng.choice([8, 16, 1, 64, -8])
            lines.append("addq $%d, %s" % (k, reg))
            d = k
        elif r < 0.5:
            k = rng.choice([8, 16, 1])
            lines.append("subq $%d, %s" % (k, reg))
            d = -k
        elif r < 0.6:
            lines.append("incq %s" % reg)
            d = 1
        elif r < 0.7:
            lines.append("decq %s" % reg)
            d = -1
        elif r < 0.8:
            c = cpy if tgt == "b" else cpy2
            if reg == c:
                continue
            lines.append("movq %s, %s" % (reg, c))         # register copy: use the copy from now on
            if tgt == "b":
                cur_base = c
            else:
                cur_idx = c
            d = 0
        elif r < 0.9:
            lines.append("leaq 8(%s), %s" % (reg, reg))    # unknown change
            known = False
            d = 0
        else:
            lines.append("addq %s, %s" % (other, other))   # unrelated
            d = 0
            tgt = None
        if tgt == "b":
            delta_b += d
        elif tgt == "i":
            delta_i += d
    # displacement of the load: compensate (same location) or not
    same = rng.random() < 0.6
    comp = d0 - delta_b - (delta_i * sc if shape in ("bis", "bisd") else 0)
    dl = comp if same else comp + rng.choice([8, -8, 16, 1])
    if shape == "b" and dl != 0:
        shape_l = "bd"
    second = False
    if rng.random() < 0.15:
        # a second store to the very same operand ends the search
        lines.append("movq %s, %s" % (val, addr(base, idx, d0)))
        second = True
    other_base = rng.random() < 0.15
    lb = ("%" + fams[2][0]) if other_base else cur_base
    if shape == "b":
        la = "(%s)" % lb if dl == 0 else "%d(%s)" % (dl, lb)
    elif shape == "bd":
        la = "%d(%s)" % (dl, lb)
    elif shape == "bis":
        la = "(%s,%s,%d)" % (lb, cur_idx, sc) if dl == 0 else "%d(%s,%s,%d)" % (dl, lb, cur_idx, sc)
    else:
        la = "%d(%s,%s,%d)" % (dl, lb, cur_idx, sc)
    lines.append(rng.choice(["movq %s, %%r11" % la, "vmovsd %s, %%xmm2" % la, "addq %s, %%r11" % la]))
    lines.append("addq %r11, %r12")
    return lines, {"same_location": same and known and not other_base, "known": known, "second_store": second}


def gen_memdep_a64(rng):
    regs = rng.sample([1, 2, 3, 4, 5, 6, 7, 8, 11, 12], 5)   # x9/x10 are the load's destination / consumer
    base, idx, other, cpy, val = regs
    shape = rng.choice(["b", "bd", "bi", "bis"])
    d0 = rng.choice([0, 8, 16, 32, -16])
    sh = rng.choice([2, 3])

    def addr(b, i, disp):
        if shape == "b" or (shape == "bd" and disp == 0 and False):
            return "[x%d]" % b if disp == 0 else "[x%d, #%d]" % (b, disp)
        if shape == "bd":
            return "[x%d, #%d]" % (b, disp)
        if shape == "bi":
            return "[x%d, x%d]" % (b, i)
        return "[x%d, x%d, lsl #%d]" % (b, i, sh)

    lines = [rng.choice(["str x%d, %s" % (val, addr(base, idx, d0)), "str d1, %s" % addr(base, idx, d0)])]
    delta_b = 0
    cur_base = base
    known = True
    for _ in range(rng.choice([0, 0, 1, 1, 2, 3])):
        r = rng.random()
        if r < 0.35:
            k = rng.choice([8, 16, 64])
            lines.append("add x%d, x%d, #%d" % (cur_base, cur_base, k))
            delta_b += k
        elif r < 0.55:
            k = rng.choice([8, 16])
            lines.append("sub x%d, x%d, #%d" % (cur_base, cur_base, k))
            delta_b -= k
        elif r < 0.7:
            k = rng.choice([8, 16, 32])
            lines.append("ldr d5, [x%d], #%d" % (cur_base, k))     # post-indexed access bumps the base
            delta_b += k
        elif r < 0.8:
            k = rng.choice([8, 16])
            lines.append("ldr d6, [x%d, #%d]!" % (cur_base, k))    # pre-indexed access bumps the base
            delta_b += k
        elif r < 0.9:
            lines.append("mov x%d, x%d" % (cpy, cur_base))
            cur_base = cpy
        else:
            lines.append("mul x%d, x%d, x%d" % (cur_base, cur_base, other))
            known = False
    same = rng.random() < 0.6
    comp = d0 - delta_b
    dl = comp if same else comp + rng.choice([8, -8, 16])
    other_base = rng.random() < 0.15
    lb = other if other_base else cur_base
    if shape in ("b", "bd"):
        la = "[x%d]" % lb if (dl == 0 and shape == "b") else "[x%d, #%d]" % (lb, dl)
    elif shape == "bi":
        la = "[x%d, x%d]" % (lb, idx)
        same = delta_b == 0          # no displacement in this shape: same location iff the base did not move
    else:
        la = "[x%d, x%d, lsl #%d]" % (lb, idx, sh)
        same = delta_b == 0
    lines.append(rng.choice(["ldr x9, %s" % la, "ldr d2, %s" % la]))
    lines.append("add x10, x9, x9")
    return lines, {"same_location": same and known and not other_base, "known": known}
