"""Shared helpers of C07 / C08: raw model entries, instruction text synthesised from an entry's own
operand pattern, canonical operand text for the line protocol, and access to the real matcher.

Everything here is on the *harness* side of the tie: it reads the YAML files independently of
`MachineModel` (ruamel safe loader), writes assembly text, lets the REAL parser turn that text into
operand objects, and describes those objects in a canonical text the Lean driver decodes
(`lean/OsacaVerif/Driver/C07.lean: decodeOperand`).
"""
import os

from harness import core

WILD = "*"


# --------------------------------------------------------------------------- raw YAML
def load_raw_path(path):
    import ruamel.yaml

    y = ruamel.yaml.YAML(typ="safe")
    with open(path, encoding="utf-8") as f:
        return y.load(f)


def model_path(arch):
    """shipped model file of the working tree (`isa/x86`, `isa/aarch64` for the ISA databases)"""
    return os.path.join(core.REPO, "osaca", "data", arch + ".yml")


def all_model_names(include_isa=True):
    names = list(core.shipped_archs())
    if include_isa:
        names += ["isa/x86", "isa/aarch64"]
    return names


def expand_forms(raw_forms):
    """post-expansion order of `MachineModel.__init__`, computed independently from the raw list:
    single-name forms in file order, then one form per alias of every list-named form.
    Returns [(raw_index, name_as_written, raw_form)]."""
    out = []
    tail = []
    for i, e in enumerate(raw_forms or []):
        if isinstance(e.get("name"), list):
            for n in e["name"]:
                tail.append((i, n, e))
        else:
            out.append((i, e.get("name"), e))
    return out + tail


# --------------------------------------------------------------------------- canonical operand text
def _t(x):
    """text of an optional string attribute (`~` = None)"""
    if x is None:
        return "~"
    return str(x)


def canon_reg(r):
    return "%s,%s,%s,%s" % (_t(r.name), _t(r.prefix), _t(r.shape), _t(r.lanes))


def canon_operand(op):
    """Describe an operand object the REAL parser (or the composition path) produced.
    R:name,prefix,shape,lanes | M:base;offset;index;scale;pre;post | I:type,hasvalue,hasident |
    L | C:ccode | P | W | O"""
    from osaca.parser.condition import ConditionOperand
    from osaca.parser.identifier import IdentifierOperand
    from osaca.parser.immediate import ImmediateOperand
    from osaca.parser.memory import MemoryOperand
    from osaca.parser.prefetch import PrefetchOperand
    from osaca.parser.register import RegisterOperand

    if isinstance(op, dict) and WILD in op:
        return "W"
    if isinstance(op, RegisterOperand):
        return "R:" + canon_reg(op)
    if isinstance(op, MemoryOperand):
        base = "~" if op.base is None else (canon_reg(op.base) if isinstance(op.base, RegisterOperand) else "?")
        index = "~" if op.index is None else (canon_reg(op.index) if isinstance(op.index, RegisterOperand) else "?")
        off = op.offset
        if off is None:
            o = "~"
        elif isinstance(off, ImmediateOperand):
            o = "i1" if (isinstance(off.value, str) and off.value == "0") else "i0"
        elif isinstance(off, IdentifierOperand):
            o = "l"
        else:
            o = "?"
        scale = op.scale if isinstance(op.scale, int) and not isinstance(op.scale, bool) else 1
        pre = "1" if op.pre_indexed is True else "0"
        post = "1" if isinstance(op.post_indexed, dict) else "0"
        if base == "?" or index == "?" or op.pre_indexed not in (True, False) or \
                not (op.post_indexed is False or isinstance(op.post_indexed, dict)):
            return "O"
        return "M:%s;%s;%s;%d;%s;%s" % (base, o, index, scale, pre, post)
    if isinstance(op, ImmediateOperand):
        return "I:%s,%d,%d" % (_t(op.imd_type), 0 if op.value is None else 1, 0 if op.identifier is None else 1)
    if isinstance(op, IdentifierOperand):
        return "L"
    if isinstance(op, ConditionOperand):
        return "C:%s" % _t(op.ccode)
    if isinstance(op, PrefetchOperand):
        return "P"
    return "O"


def canon_operands(ops):
    return "|".join(canon_operand(o) for o in ops)


# --------------------------------------------------------------------------- instruction text from a pattern
X86_GPR = ["rax", "rbx", "rcx", "rdx", "rsi", "rdi", "r8", "r9", "r10", "r11", "r12d", "r13w", "r14b", "r15",
           "eax", "ebx", "ecx", "edx", "esi", "edi", "ax", "bx", "cl", "dl", "rbp", "rsp", "ebp", "sil"]
X86_ADDR = ["rax", "rbx", "rcx", "rdx", "rsi", "rdi", "r8", "r9", "r10", "r11", "r12", "r13", "r14", "r15", "rbp", "rsp"]
X86_VEC = {"mm": 8, "xmm": 32, "ymm": 32, "zmm": 32}
A64_SHAPES = ["b", "h", "s", "d"]
A64_LANES = {"b": ["8", "16", ""], "h": ["4", "8", ""], "s": ["2", "4", ""], "d": ["1", "2", ""], "q": ["1", ""]}
A64_CONDS = ["eq", "ne", "cs", "hs", "cc", "lo", "mi", "pl", "vs", "vc", "hi", "ls", "ge", "lt", "gt", "le", "al"]


class Pick:
    """choice source: deterministic first choice (rng None) or a random.Random"""

    def __init__(self, rng=None):
        self.rng = rng

    def __call__(self, seq):
        seq = list(seq)
        return seq[0] if self.rng is None else self.rng.choice(seq)

    def int(self, lo, hi):
        return lo if self.rng is None else self.rng.randint(lo, hi)


def x86_reg_text(cls, pick):
    """a register written with exactly the class an x86 entry declares"""
    if cls == "gpr":
        return "%" + pick(X86_GPR)
    if cls == WILD:
        return "%" + pick(["rax", "xmm3", "ymm2", "r9d", "k2"])
    if cls in X86_VEC:
        return "%%%s%d" % (cls, pick.int(0, X86_VEC[cls] - 1))
    if cls == "k":
        return "%%k%d" % pick.int(0, 7)
    return None                                # not a register class of the architecture


def x86_mem_text(o, pick):
    base, off, idx, sc = o.get("base"), o.get("offset"), o.get("index"), o.get("scale")

    def reg_options(v, prefer_reg):
        if v is None:
            return [None]
        if v == WILD:
            r = "%" + pick(X86_ADDR)
            return [r, None] if prefer_reg else [None, r]
        if v == "gpr":
            return ["%" + pick(X86_ADDR)]
        if isinstance(v, str):
            t = x86_reg_text(v, pick)
            return [t] if t else []
        return []

    bopts, iopts = reg_options(base, True), reg_options(idx, False)
    if not bopts or not iopts:
        return None
    if off is None:
        oopts = [""]
    elif off == WILD:
        oopts = ["", "8", "-16", "0x40", "lab1"]
    elif off == "imd":
        oopts = ["8", "-16", "0x40"]
    elif off == "id":
        oopts = ["lab1"]
    else:
        return None
    if sc == WILD:
        sopts = [1, 2, 4, 8]
    elif isinstance(sc, int) and not isinstance(sc, bool):
        sopts = [sc] if sc in (1, 2, 4, 8) else []
    elif sc is None:
        sopts = [2, 4, 8]
    else:
        sopts = []
    combos = []
    for b in bopts:
        for i in iopts:
            for ot in oopts:
                for s in sopts:
                    if s != 1 and not i:
                        continue
                    if not b and not i and not (ot.isdigit() or ot.startswith("0x")):
                        continue
                    combos.append((b, i, ot, s))
    if not combos:
        return None
    b, i, ot, s = pick(combos)
    if not b and not i:
        return ot
    inner = (b or "")
    if i:
        inner += "," + i
        if s != 1 or pick([False, True]):
            inner += ",%d" % s
    return "%s(%s)" % (ot, inner)


def x86_operand_text(o, pick, position):
    c = o.get("class") if isinstance(o, dict) else None
    if c == "register":
        return x86_reg_text(o.get("name"), pick)
    if c == "memory":
        return x86_mem_text(o, pick)
    if c == "immediate":
        return "$" + pick(["1", "-3", "0x10"]) if o.get("imd") == "int" else None
    if c == "identifier":
        return "lab1" if position == 0 else "$lab1"
    return None


def a64_reg_text(o, pick):
    pfx, shape = o.get("prefix"), o.get("shape")
    if pfx == WILD:
        if shape is not None:
            pfx = pick(["v", "z"])
        else:
            pfx = pick(["x", "w", "d", "s", "q"])
    if not isinstance(pfx, str) or len(pfx) != 1:
        return None
    n = pick.int(0, 30)
    if pfx in "xwbhsdq":
        return None if shape is not None else "%s%d" % (pfx, n)
    if pfx in "vz":
        if shape is None:
            return "%s%d" % (pfx, n)
        sh = pick(A64_SHAPES) if shape == WILD else shape
        if not isinstance(sh, str) or len(sh) != 1 or not sh.isalpha():
            return None
        lanes = pick(A64_LANES.get(sh, [""])) if pfx == "v" else ""
        return "%s%d.%s%s" % (pfx, n, lanes, sh)
    if pfx == "p":
        n = pick.int(0, 15)
        if shape is None:
            return pick(["p%d" % n, "p%d/m" % n, "p%d/z" % n]) if o.get("predication") in (None, WILD) else "p%d/%s" % (n, o["predication"])
        sh = pick(A64_SHAPES) if shape == WILD else shape
        return "p%d.%s" % (n, sh)
    return None


def a64_mem_text(o, pick):
    base, off, idx, sc = o.get("base"), o.get("offset"), o.get("index"), o.get("scale")
    pre, post = o.get("pre_indexed", False), o.get("post_indexed", False)
    if base == WILD:
        base = "x"
    if not isinstance(base, str) or base not in ("x", "w"):
        return None
    b = "%s%d" % (base, pick.int(0, 28))
    pres = [False, True] if pre == WILD else [pre]
    posts = [False, True] if post == WILD else [post]
    if any(v not in (True, False) for v in pres + posts):
        return None
    off_ok = {"none": off is None or off == WILD, "off": off in (WILD, "imd"), "idx": off is None or off == WILD}
    idx_letter = isinstance(idx, str) and len(idx) == 1 and idx in "xwvz"
    idx_ok = {"none": idx is None or idx == WILD, "off": idx is None or idx == WILD, "idx": idx == WILD or idx_letter}
    if sc == WILD:
        unscaled, scaled = True, [2, 4, 8]
    elif isinstance(sc, int) and not isinstance(sc, bool):
        unscaled, scaled = sc == 1, ([sc] if sc in (2, 4, 8, 16) else [])
    elif sc is None:
        unscaled, scaled = False, [2, 4, 8]
    else:
        return None
    combos = []
    for mode in ("off", "none", "idx"):
        if not (off_ok[mode] and idx_ok[mode]):
            continue
        scales = ([1] if unscaled else []) + (scaled if mode == "idx" else [])
        for s in scales:
            for pr in pres:
                for po in posts:
                    if pr and po:
                        continue
                    combos.append((mode, s, pr, po))
    if not combos:
        return None
    # canonical first choice: plain offset addressing before register offset
    mode, s, pr, po = pick(combos)
    inner = b
    if mode == "off":
        inner += ", #%s" % pick(["8", "-16", "0x40"])
    elif mode == "idx":
        ip = "x" if idx == WILD else idx
        ireg = "%s%d.%s" % (ip, pick.int(0, 30), pick(["s", "d"])) if ip in "vz" else "%s%d" % (ip, pick.int(0, 28))
        inner += ", " + ireg
        if s != 1:
            inner += ", lsl #%d" % {2: 1, 4: 2, 8: 3, 16: 4}[s]
    text = "[%s]" % inner
    if pr:
        text += "!"
    if po:
        text += ", #%s" % pick(["16", "32", "-8"])
    return text


def a64_operand_text(o, pick, position):
    c = o.get("class") if isinstance(o, dict) else None
    if c == "register":
        return a64_reg_text(o, pick)
    if c == "memory":
        return a64_mem_text(o, pick)
    if c == "immediate":
        t = o.get("imd")
        if t == WILD:
            t = pick(["int", "double", "float"])
        return {"int": "#" + pick(["1", "16", "0x3f"]), "double": "#" + pick(["1.5", "0.25"]),
                "float": "#" + pick(["1.5e+2f", "2.0f"])}.get(t)
    if c == "identifier":
        return pick(["lab1", ".L4"])
    if c == "condition":
        cc = o.get("ccode")
        if not isinstance(cc, str):
            return None
        cc = pick(A64_CONDS) if cc == WILD else cc.lower()
        return cc if cc in A64_CONDS and position > 0 else None
    if c == "prfop":
        return "pldl1keep" if position == 0 else None
    return None


def synth_line(isa, name, operands, pick=None):
    """assembly text of an instruction written with exactly the operand kinds the entry declares,
    or (None, reason) when the pattern cannot be written in the assembly syntax at all."""
    pick = pick or Pick()
    isa = isa.lower()
    texts = []
    for pos, o in enumerate(operands or []):
        t = x86_operand_text(o, pick, pos) if isa == "x86" else a64_operand_text(o, pick, pos)
        if t is None:
            return None, "operand %d (%s) cannot be written" % (pos, _short(o))
        texts.append(t)
    if isa == "x86" and len(texts) > 4:
        return None, "more than 4 operands"
    if isa != "x86" and len(texts) > 5:
        texts = _a64_group_lists(texts)
        if texts is None or len(texts) > 5:
            return None, "more than 5 operands"
    return (str(name) + " " + ", ".join(texts)).strip(), None


def _a64_group_lists(texts):
    """fold a leading run of vector registers into one `{...}` list operand (expanded again by the parser)"""
    run = 0
    while run < len(texts) and texts[run][:1] in "vz" and "." in texts[run]:
        run += 1
    if run < 2:
        return None
    return ["{" + ", ".join(texts[:run]) + "}"] + texts[run:]


def _short(o):
    if not isinstance(o, dict):
        return repr(o)[:40]
    return ",".join("%s=%s" % (k, o[k]) for k in o if k not in ("source", "destination"))


def entry_sig(e):
    return "_".join(_short(o) for o in (e.get("operands") or []))


# --------------------------------------------------------------------------- the real matcher
class Impl:
    """one loaded `MachineModel` with an id->index map of its (post-expansion) forms"""

    def __init__(self, mm):
        from osaca.parser import ParserAArch64, ParserX86ATT

        self.mm = mm
        self.isa = mm.get_ISA().lower()
        self.parser = ParserX86ATT() if self.isa == "x86" else ParserAArch64()
        self.index = {}
        seen = {}
        k = 0
        for iform in mm["instruction_forms"]:
            name = iform["name"] if hasattr(iform, "get") and not hasattr(iform, "mnemonic") else iform.mnemonic
            j = seen.get(name, 0)
            seen[name] = j + 1
            lst = mm["instruction_forms_dict"].get(name, [])
            if j < len(lst):
                self.index[id(lst[j])] = k
            k += 1
        self.n = k

    def parse(self, line):
        return self.parser.parse_line(line, 1)

    def lookup(self, mnemonic, operands):
        """index (post-expansion order) of the entry get_instruction returns, None, or 'exc:<Type>'"""
        try:
            r = self.mm.get_instruction(mnemonic, operands)
        except Exception as e:  # noqa
            return "exc:" + type(e).__name__
        if r is None:
            return None
        return self.index.get(id(r), "foreign")
