"""C18 helper code shared by the check (harness/props/c18.py) and its worker process
(harness/c18_worker.py): structural digests of OSACA's process-global state, execution of one
analysis request the way `osaca.osaca.main` does it, the abstraction of a real analysis to the
`History` model's vocabulary, and the request generators.

Nothing here imports osaca at module level (the worker imports it after setting HOME).
"""
import hashlib
import io
import os
import re
import sys
import types

# --------------------------------------------------------------------------- structural digest
_ATOMS = (str, bytes, int, float, bool, type(None), complex)


def _is_pyparsing(o):
    return type(o).__module__.split(".")[0] == "pyparsing"


def digest(obj, opaque=_is_pyparsing):
    """SHA-256 over a canonical walk of an object graph (contents, not identities).

    dict/list subclasses (ruamel's CommentedMap/Seq, defaultdict) count as dict/list, float/int
    subclasses as float/int, objects as (class name, vars).  `opaque(o)` objects contribute their
    class name only.  Cycles are cut at the first repetition on the current path.
    """
    h = hashlib.sha256()
    up = h.update
    on_path = set()
    home = os.environ.get("HOME") or "\0"

    def rec(o):
        if o is None or o is True or o is False:
            up(repr(o).encode())
            return
        if isinstance(o, float):
            up(b"f" + repr(float(o)).encode())
            return
        if isinstance(o, int):
            up(b"i" + repr(int(o)).encode())
            return
        if isinstance(o, str):
            up(b"s" + str(o).replace(home, "~").encode("utf-8", "replace") + b"\0")
            return
        if isinstance(o, bytes):
            up(b"b" + o + b"\0")
            return
        i = id(o)
        if i in on_path:
            up(b"<cycle>")
            return
        on_path.add(i)
        try:
            if isinstance(o, dict):
                up(b"{")
                items = list(o.items())
                try:
                    items.sort(key=lambda kv: (type(kv[0]).__name__, kv[0]))
                except TypeError:
                    items.sort(key=lambda kv: repr(kv[0]))
                for k, v in items:
                    rec(k)
                    up(b":")
                    rec(v)
                    up(b",")
                up(b"}")
            elif isinstance(o, (list, tuple)):
                up(b"[" if isinstance(o, list) else b"(")
                for x in o:
                    rec(x)
                    up(b",")
                up(b"]")
            elif isinstance(o, (set, frozenset)):
                up(b"set")
                rec(sorted(repr(x) for x in o))
            elif isinstance(o, (types.FunctionType, types.BuiltinFunctionType, types.MethodType, type,
                                types.ModuleType, staticmethod, classmethod, property)):
                up(b"<code>")
            elif opaque is not None and opaque(o):
                up(b"<opaque " + type(o).__name__.encode() + b">")
            elif isinstance(o, re.Pattern):
                up(b"<re " + o.pattern.encode() + b">")
            elif hasattr(o, "__dict__"):
                up(b"<obj " + type(o).__name__.encode())
                rec(vars(o))
                up(b">")
            else:
                up(b"<other " + type(o).__name__.encode() + b">")
        finally:
            on_path.discard(i)

    rec(obj)
    return h.hexdigest()[:24]


def _is_data(v):
    return isinstance(v, (dict, list, set, frozenset, tuple, str, bytes, int, float, bool, type(None)))


def cache_key(path):
    """stable name of a model file: `zen2.yml`, `isa/x86.yml`"""
    p = path.replace(os.sep, "/")
    m = re.search(r"/data/(isa/[^/]+|[^/]+)$", p)
    return m.group(1) if m else os.path.basename(p)


def state_digests(which="all", touched=None):
    """Digests of OSACA's process-global state.  Keys:
         cache:<file>          contents of MachineModel._runtime_cache[<path>]      (absolute)
         defaults:<func>       default-argument objects of every osaca function    (absolute)
         class:<Class>         plain data attributes of every osaca class          (absolute)
         global:<mod>.<name>   module-level data                                   (absolute)
         parser:<Class>        instance attributes of the parser singletons: names, plain values,
                               grammar text                                        (absolute)
         parserid:<Class>      identities of the singleton and of its grammar objects (relative:
                               only comparable inside one process)
       `which`: "all" | "touched" (cache entries listed in `touched` only, plus everything else).
    """
    out = {}
    from osaca.semantics.hw_model import MachineModel

    for path, data in list(MachineModel._runtime_cache.items()):
        if which == "touched" and touched is not None and path not in touched:
            continue
        out["cache:" + cache_key(path)] = digest(data)
    for mname, mod in sorted(sys.modules.items()):
        if not (mname == "osaca" or mname.startswith("osaca.")) or mod is None:
            continue
        for name, v in sorted(vars(mod).items()):
            if name.startswith("__"):
                continue
            if isinstance(v, type) and getattr(v, "__module__", None) == mname:
                data = {}
                for an, av in vars(v).items():
                    if an.startswith("__") or an in ("_runtime_cache", "_instance"):
                        continue
                    if isinstance(av, (types.FunctionType, staticmethod, classmethod, property)):
                        f = av.__func__ if isinstance(av, (staticmethod, classmethod)) else av
                        f = f.fget if isinstance(f, property) else f
                        d = getattr(f, "__defaults__", None)
                        kd = getattr(f, "__kwdefaults__", None)
                        if d or kd:
                            out["defaults:%s.%s.%s" % (mname, name, an)] = digest([d, kd])
                        continue
                    data[an] = av
                out["class:%s.%s" % (mname, name)] = digest(data)
                inst = vars(v).get("_instance")
                if inst is not None:
                    plain, ids = {}, {"self": id(inst)}
                    for an, av in sorted(vars(inst).items()):
                        if _is_pyparsing(av):
                            # pyparsing flattens nested And/Or lazily on first direct use (streamline):
                            # the grammar text is compared without its grouping braces
                            plain[an] = "%s:%s" % (type(av).__name__, str(av).replace("{", "").replace("}", ""))
                            ids[an] = id(av)
                        else:
                            plain[an] = av
                    out["parser:%s" % name] = digest(plain)
                    out["parserid:%s" % name] = digest(ids)
            elif isinstance(v, types.FunctionType) and getattr(v, "__module__", None) == mname:
                f = getattr(v, "__wrapped__", v)
                d, kd = getattr(f, "__defaults__", None), getattr(f, "__kwdefaults__", None)
                if d or kd:
                    out["defaults:%s.%s" % (mname, name)] = digest([d, kd])
            elif _is_data(v) and not isinstance(v, types.ModuleType):
                out["global:%s.%s" % (mname, name)] = digest(v)
    return out


RELATIVE_PREFIXES = ("parserid:",)


# --------------------------------------------------------------------------- running one request
TS_RE = re.compile(r"^(Timestamp:\s*).*$", re.M)
FILE_RE = re.compile(r"^(Analyzed file:\s*).*/", re.M)


def mask(text):
    """timestamp masked; directory of the analysed file dropped (scratch directories differ)"""
    return FILE_RE.sub(r"\1", TS_RE.sub(r"\1<masked>", text))


def run_request(argv):
    """What `osaca.osaca.main` does, with the report captured.  Returns {"out":..., "exc":...}."""
    import osaca.osaca as O

    out = io.StringIO()
    exc = None
    args = None
    err = io.StringIO()
    old_err = sys.stderr
    sys.stderr = err
    try:
        parser = O.create_parser()
        args = parser.parse_args(argv)
        O.check_arguments(args, parser)
        O.run(args, output_file=out)
    except SystemExit as e:
        exc = "SystemExit:%s" % (e.code,)
    except Exception as e:  # noqa
        exc = "%s:%s" % (type(e).__name__, str(e)[:300])
    finally:
        sys.stderr = old_err
        try:
            if args is not None and getattr(args, "file", None) is not None:
                args.file.close()
        except Exception:  # noqa
            pass
    return {"out": mask(out.getvalue()), "exc": exc}


# --------------------------------------------------------------------------- abstraction to the History model
def uop_key(u):
    try:
        return "%r/%s" % (float(u[0]), ",".join(str(p) for p in u[1]))
    except Exception:  # noqa
        return "?" + repr(u)[:40]


class Capture:
    """Installed around ArchSemantics.add_semantics by the worker.  Before the call it records who
    owns which list / micro-op object of the model (by identity); after the call it classifies every
    kernel line in the History model's vocabulary and reads the tables again."""

    def __init__(self, load_first=True):
        self.load_first = load_first
        self.calls = []  # one record per add_semantics call
        self.referenced = {}  # path key -> ordered list of referenced form keys (stable across calls)
        self.hid_referenced = {}
        self._pending = None

    # ---- snapshot before
    def before(self, sem, kernel):
        mm = sem._machine_model
        data = mm._data
        isa_data = sem._isa_model._data
        snap = {"list_owner": {}, "form_before": {}, "first": {}, "L": {}, "S": {}, "hid_owner": {}, "hid_len": {},
                "unmodelled": None}
        try:
            for name, lst in data["instruction_forms_dict"].items():
                for idx, e in enumerate(lst):
                    pp = e.port_pressure
                    if isinstance(pp, list):
                        snap["list_owner"][id(pp)] = (name, idx)
                        snap["form_before"][(name, idx)] = list(pp)
                        if pp:
                            snap["first"].setdefault(id(pp[0]), (name, idx))
            loads = [x[1] for x in data.get("load_throughput", [])]
            stores = [x[1] for x in data.get("store_throughput", [])]
            snap["loads_obj"] = loads
            snap["stores_obj"] = stores
            snap["ldef_obj"] = data.get("load_throughput_default", [])
            snap["sdef_obj"] = data.get("store_throughput_default", [])
            for i, l in enumerate(loads):
                for u in l:
                    snap["L"].setdefault(id(u), i)
            for u in snap["ldef_obj"]:
                snap["L"].setdefault(id(u), "d")
            for j, l in enumerate(stores):
                for u in l:
                    snap["S"].setdefault(id(u), j)
            for u in snap["sdef_obj"]:
                snap["S"].setdefault(id(u), "d")
            snap["tables_before"] = self._tables(snap)
            for name, lst in isa_data["instruction_forms_dict"].items():
                for idx, e in enumerate(lst):
                    hops = e.hidden_operands
                    if hops:
                        snap["hid_len"][(name, idx)] = len(hops)
                        for hop in hops:
                            snap["hid_owner"][id(hop)] = (name, idx)
                        snap.setdefault("hid_obj", {})[(name, idx)] = hops
        except Exception as e:  # noqa
            snap["unmodelled"] = "snapshot:%s:%s" % (type(e).__name__, e)
        snap["mm"] = mm
        snap["isa"] = sem._isa_model
        snap["kernel"] = kernel
        self._pending = snap

    @staticmethod
    def _tables(snap):
        return {
            "loads": [[uop_key(u) for u in l] for l in snap["loads_obj"]],
            "stores": [[uop_key(u) for u in l] for l in snap["stores_obj"]],
            "ldef": [uop_key(u) for u in snap["ldef_obj"]],
            "sdef": [uop_key(u) for u in snap["sdef_obj"]],
        }

    # ---- classification after
    def after(self):
        snap = self._pending
        self._pending = None
        if snap is None:
            return
        mm = snap["mm"]
        pkey = cache_key(getattr(mm, "_path", None) or "?")
        rec = {"path": pkey, "isa_path": cache_key(getattr(snap["isa"], "_path", None) or "?"),
               "unmodelled": snap["unmodelled"], "lines": [], "rows": []}
        refs = self.referenced.setdefault(pkey, [])
        hrefs = self.hid_referenced.setdefault(pkey, [])
        if rec["unmodelled"] is None:
            try:
                self._classify(snap, rec, refs, hrefs)
            except Exception as e:  # noqa
                rec["unmodelled"] = "classify:%s:%s" % (type(e).__name__, e)
        rec["_snap"] = snap
        self.calls.append(rec)

    def _classify(self, snap, rec, refs, hrefs):
        TPU, LTU, HLD, HST = "tp_unknown", "lt_unknown", "performs_load", "performs_store"

        def fidx(key):
            if key not in refs:
                refs.append(key)
            return refs.index(key)

        for ins in snap["kernel"]:
            tok = None
            pu = ins.port_uops
            flags = ins.flags or []
            if ins.mnemonic is None:
                tok = "o"
            elif isinstance(pu, dict):
                rec["unmodelled"] = "alternative port assignments (dict) at line %s" % ins.line_number
                return
            elif id(pu) in snap["list_owner"]:
                tok = "f%d" % fidx(snap["list_owner"][id(pu)])
            elif TPU in flags and LTU in flags and not pu:
                tok = "u"
            else:
                # composed: register form's micro-ops, then load / store data
                owner = None
                n = 0
                key = snap["first"].get(id(pu[0])) if pu else None
                if key is not None:
                    before = snap["form_before"][key]
                    if len(before) <= len(pu) and all(a is b for a, b in zip(before, pu)):
                        owner, n = key, len(before)
                if owner is None:
                    # register form without micro-ops of its own: nothing to identify it by
                    owner, n = ("<no-uops>", 0), 0
                    snap["form_before"].setdefault(owner, [])
                rest = pu[n:]
                has_ld, has_st = HLD in flags, HST in flags

                def mem_l():
                    if not rest:
                        return None
                    first = rest[0] if self.load_first else rest[-1]
                    return snap["L"].get(id(first))

                def mem_s():
                    if not rest:
                        return None
                    last = rest[-1] if self.load_first else rest[0]
                    return snap["S"].get(id(last))

                def mtok(m):
                    return "d" if m == "d" else "e%d" % m

                ml, ms = mem_l(), mem_s()
                if has_ld and has_st and ml is not None and ms is not None:
                    tok = "m%d.%s.%s" % (fidx(owner), mtok(ml), mtok(ms))
                elif has_ld and ml is not None and (not has_st or ms is None):
                    tok = "l%d.%s" % (fidx(owner), mtok(ml))
                elif has_st and ms is not None:
                    tok = "s%d.%s" % (fidx(owner), mtok(ms))
                elif not rest and (has_ld or has_st):
                    # data lists empty (e.g. no default throughput): same as a load with empty default
                    rec["unmodelled"] = "composed form with empty data micro-ops at line %s" % ins.line_number
                    return
                elif rest and (has_ld or has_st) and all(id(u) in snap["L"] or id(u) in snap["S"] for u in rest):
                    # all data micro-ops come from the load/store tables, but not arranged as the model
                    # (with the configuration read from the source) says: a model-vs-code difference
                    rec["unmodelled"] = "ARRANGEMENT: data micro-ops of line %s (%s) are not <load entry><store entry> in the order of Gen.HistoryCfg" % (ins.line_number, (ins.line or "").strip()[:60])
                    return
                else:
                    rec["unmodelled"] = "cannot classify line %s" % ins.line_number
                    return
            # hidden operands handed out by the ISA model
            so = ins.semantic_operands or {}
            owners = []
            for grp in ("source", "destination", "src_dst"):
                for op in so.get(grp, []):
                    o = snap["hid_owner"].get(id(op))
                    if o is not None:
                        owners.append(o)
            hid_keys, hid_ref = [], False
            if owners and tok != "o":
                if len(set(owners)) == 1 and len(owners) == snap["hid_len"][owners[0]]:
                    if owners[0] not in hrefs:
                        hrefs.append(owners[0])
                    tok += "h%d" % hrefs.index(owners[0])
                    hid_ref = True
                    hid_keys = [digest(h)[:10] for h in snap["hid_obj"][owners[0]]]
                else:
                    rec["unmodelled"] = "hidden operands of several ISA entries at line %s" % ins.line_number
                    return
            rec["lines"].append(tok)
            rec["rows"].append({
                "known": not (TPU in flags and LTU in flags) if ins.mnemonic is not None else True,
                "uops": [uop_key(u) for u in pu] if isinstance(pu, list) else [],
                "ref": id(pu) in snap["list_owner"],
                "hid": hid_keys, "hid_ref": hid_ref,
                "line": ins.line_number,
            })

    # ---- to be called when the request is over (report rendered): read rows and tables again
    def finish_call(self):
        out = []
        for rec in self.calls:
            snap = rec.pop("_snap")
            if rec["unmodelled"] is None:
                try:
                    end_rows = []
                    for ins in snap["kernel"]:
                        pu = ins.port_uops
                        end_rows.append([uop_key(u) for u in pu] if isinstance(pu, list) else None)
                    rec["end_uops"] = end_rows
                    rec["tables_before"] = snap["tables_before"]
                    rec["tables_after"] = self._tables(snap)
                    refs = self.referenced[rec["path"]]
                    rec["forms_before"] = [[uop_key(u) for u in snap["form_before"].get(k, [])] for k in refs]
                    fa = []
                    d = snap["mm"]._data["instruction_forms_dict"]
                    for (name, idx) in refs:
                        if name == "<no-uops>":
                            fa.append([])
                            continue
                        try:
                            pp = d[name][idx].port_pressure
                            fa.append([uop_key(u) for u in pp] if isinstance(pp, list) else ["?dict"])
                        except Exception:  # noqa
                            fa.append(["?missing"])
                    rec["forms_after"] = fa
                    hrefs = self.hid_referenced[rec["path"]]
                    rec["hidden_after"] = [[digest(h)[:10] for h in snap.get("hid_obj", {}).get(k, [])] for k in hrefs]
                except Exception as e:  # noqa
                    rec["unmodelled"] = "finish:%s:%s" % (type(e).__name__, e)
            out.append(rec)
        self.calls = []
        return out


def install_capture(cap):
    from osaca.semantics.arch_semantics import ArchSemantics

    if getattr(ArchSemantics.add_semantics, "_c18_wrapped", False):
        return
    orig = ArchSemantics.add_semantics

    def add_semantics(self, kernel):
        cap.before(self, kernel)
        try:
            return orig(self, kernel)
        finally:
            cap.after()

    add_semantics._c18_wrapped = True
    add_semantics._c18_orig = orig
    ArchSemantics.add_semantics = add_semantics


# --------------------------------------------------------------------------- request generators
X86_LINES = [
    # in most models as they are
    "vaddpd %ymm1, %ymm2, %ymm3", "addq %rax, %rbx", "vfmadd231pd %ymm1, %ymm2, %ymm3", "vmovapd (%rax), %ymm0",
    "vmovapd %ymm0, (%rax)", "movq %rax, %rbx", "incq %rcx", "cmpq %rax, %rbx", "leaq 8(%rax), %rbx",
    "xorl %eax, %eax", "vmulpd %xmm4, %xmm5, %xmm6", "addl $1, %ecx", "vmovups %xmm11, -128(%r10)",
    "vxorpd %ymm0, %ymm0, %ymm0", "movq 8(%rsp), %rdx", "movl %eax, 4(%rdi)", "subq $-128, %r10",
    # register form + load data
    "vaddpd (%rax), %ymm0, %ymm1", "addq 8(%rbx), %rax", "vmulpd 16(%rsi,%rcx,8), %ymm2, %ymm3",
    "vfmadd132pd 0(%r13,%rax), %ymm3, %ymm0", "vaddsd (%rdx,%rax,8), %xmm0, %xmm0", "imulq 24(%rdi), %rsi",
    # register form + store data, and load+store (read-modify-write)
    "addq %rax, 8(%rbx)", "addl $1, (%rdi)", "subq %rdx, 16(%rsp)", "incq (%rax)", "orq %rcx, (%rsi,%rdx,8)",
    "addq %rcx, 16(%rbx)", "xorl %eax, 4(%rdi,%rsi,4)", "andq %r8, (%r9)", "negq 8(%rax)", "shlq $2, (%rdi)",
    # unknown
    "foo %rax, %rbx", "vfrobnicate %ymm0, %ymm1, %ymm2", "xyzzyq 8(%rax), %rbx",
    # control flow
    "jne .L1", "ja .L10", "jb .L2",
    # flag readers (the ISA database knows their flag sources: -f / --consider-flag-deps changes the graph)
    "cmovne %rax, %rbx", "cmovb %rcx, %rdx", "sbbq %rax, %rbx", "cmovge %rbx, %rcx", "cmpq %rcx, %rdx", "testq %rax, %rax",
]
X86_OTHER = [".L1:", ".L10:", "# a comment", ".p2align 4,,10", ".loc 1 15 3", "  # indented comment"]
A64_LINES = [
    "fadd v0.2d, v1.2d, v2.2d", "add x0, x1, x2", "ldr q0, [x1]", "ldr d1, [x2, #8]", "str q0, [x3]",
    "ldp d0, d1, [x0]", "stp q2, q3, [x1, #32]", "ldr x4, [x5], #8", "str d0, [x1, #8]!", "fmla v0.2d, v1.2d, v2.2d",
    "subs x9, x9, #1", "cmp x0, x1", "mov x3, x4", "fmul v4.2d, v4.2d, v16.2d", "ldp q4, q5, [x9, #-32]",
    "ldp q6, q7, [x9], #64", "ldp q16, q17, [x11, #-32]!", "stp q0, q1, [x10, #-32]", "add x10, x10, #64",
    "adds x12, x12, #1", "ldr d0, [x8, x9, lsl #3]", "str d2, [x10, x11, lsl #3]", "fadd d0, d1, d2",
    "ldur q1, [x2, #-16]", "stur d3, [x4, #-8]", "ldr w5, [x6, #4]", "str w7, [x8]", "ldrb w1, [x2]",
    "ldrh w3, [x4, #2]", "strb w5, [x6]", "ld1 {v0.2d}, [x0]", "st1 {v1.2d}, [x1]", "ldadd x0, x1, [x2]",
    "fmadd d0, d1, d2, d3", "madd x0, x1, x2, x3", "eor v0.16b, v0.16b, v0.16b",
    "frob x0, x1", "vzzz v0.2d, v1.2d", "quux x3, [x4]",
    "b.ne .L2", "bne .LBB0_32", "b.lt .L3",
    # flag readers
    "csel x0, x1, x2, ne", "cset w3, lo", "adcs x1, x2, x3", "csinc x4, x5, x6, ge", "cmp x9, x10", "tst x1, x2",
]
A64_OTHER = [".L2:", ".LBB0_32:", "// a comment", ".p2align 4", "  // indented"]

ARCH_ISA = {"zen1": "x86", "zen2": "x86", "zen3": "x86", "zen4": "x86", "spr": "x86", "icx": "x86", "icl": "x86",
            "hsw": "x86", "ivb": "x86", "snb": "x86",
            "tx2": "aarch64", "n1": "aarch64", "a72": "aarch64", "a64fx": "aarch64", "m1": "aarch64",
            "v2": "aarch64", "tsv110": "aarch64"}
# not in SUPPORTED_ARCHS of the CLI (check_arguments rejects them): none of the above.


def gen_kernel(rng, isa, nmax=14):
    lines_pool, other = (X86_LINES, X86_OTHER) if isa == "x86" else (A64_LINES, A64_OTHER)
    cm = "#" if isa == "x86" else "//"
    n = rng.randint(1, nmax)
    body = []
    for _ in range(n):
        r = rng.random()
        if r < 0.12:
            body.append(rng.choice(other))
        else:
            body.append("    " + rng.choice(lines_pool))
    # repetitions inside one kernel matter for in-place growth
    if rng.random() < 0.4 and body:
        x = rng.choice(body)
        body.insert(rng.randrange(len(body) + 1), x)
    marked = rng.random() < 0.5
    pre, post = [], []
    if marked:
        if rng.random() < 0.5:
            pre = ["    " + rng.choice(lines_pool) for _ in range(rng.randint(0, 2))]
            post = ["    " + rng.choice(lines_pool) for _ in range(rng.randint(0, 2))]
        body = pre + ["%s OSACA-BEGIN" % cm] + body + ["%s OSACA-END" % cm] + post
    return "\n".join(body) + "\n"


def corpus(repo, thorough=False):
    """(name, isa, text) of kernels shipped with OSACA."""
    import glob

    out = []
    skip = {"kernel_x86_long_LCD.s"}  # its LCD search is cut by the wall-clock timeout
    big = {"triad_arm_iaca.s", "triad_x86_iaca.s", "triad_x86_unmarked.s"}
    for f in sorted(glob.glob(os.path.join(repo, "tests", "test_files", "*.s"))):
        b = os.path.basename(f)
        if b in skip or (b in big and not thorough):
            continue
        isa = "aarch64" if ("aarch64" in b or "arm" in b) else "x86"
        out.append(("t_" + b, isa, open(f, encoding="utf-8").read()))
    for f in sorted(glob.glob(os.path.join(repo, "examples", "*", "*.s"))):
        b = os.path.basename(f)
        isa = "aarch64" if ".tx2." in b else "x86"
        out.append(("e_" + b, isa, open(f, encoding="utf-8").read()))
    return out


def gen_request(rng, kernels, archs, p_default_arch=0.12, p_wrong_isa=0.04):
    """One request: kernel + options.  `kernels`: list of (name, isa, nlines); `archs`: usable arch codes."""
    name, isa, nlines = rng.choice(kernels)
    argv = []
    r = rng.random()
    same = [a for a in archs if ARCH_ISA[a] == isa]
    other = [a for a in archs if ARCH_ISA[a] != isa]
    if r < p_default_arch:
        arch = None
    elif r < p_default_arch + p_wrong_isa and other:
        arch = rng.choice(other)
    else:
        arch = rng.choice(same)
    if arch is not None:
        argv += ["--arch", rng.choice([arch, arch.upper()])]
    if rng.random() < 0.3:
        argv.append("--fixed")
    if rng.random() < 0.25:
        argv.append("-f")
    if rng.random() < 0.3:
        argv.append("--ignore-unknown")
    if rng.random() < 0.15:
        argv.append("-" + "v" * rng.randint(1, 3))
    if rng.random() < 0.15 and nlines >= 2:
        a = rng.randint(1, nlines)
        b = rng.randint(a, min(nlines, a + 30))
        argv += ["--lines", rng.choice(["%d-%d" % (a, b), "%d:%d" % (a, b), "%d,%d" % (a, b)])]
    return {"kernel": name, "argv": argv}


def req_id(req):
    return hashlib.sha256(("%s|%s" % (req["kernel"], " ".join(req["argv"]))).encode()).hexdigest()[:16]
