"""Synthetic machine models and kernels for the port-pressure properties (C01, C02).

A synthetic model is an x86 model whose instruction forms are `op<k> gpr, gpr` (register forms only),
each with a random micro-op list over a random port list.  Kernels are sequences of such
instructions on distinct registers (no unknown instructions, no memory operands).
"""
import os

PORT_NAME_POOLS = [
    ["0", "1", "2", "3", "4", "5", "6", "7"],
    ["0", "0DV", "1", "2", "2D", "3", "3D", "4"],
    ["0", "1", "10", "11", "10D", "5", "6", "DV"],
]
CYCLES = [0, 0.25, 0.33, 0.5, 1, 1, 1, 1.5, 2, 3, 21]
REGS = ["rax", "rbx", "rcx", "rdx", "rsi", "rdi", "r8", "r9", "r10", "r11", "r12", "r13", "r14", "r15"]


def mnemonic(i):
    # only letters: the AT&T fall-back strips one trailing b/w/l/q/s/t, so avoid those at the end
    letters = "acdefghijkmnopruvxyz"
    s = ""
    i += 1
    while i:
        s = letters[i % len(letters)] + s
        i //= len(letters)
    return "zz" + s + "x"


def yaml_ports(ports):
    return "[" + ", ".join("'%s'" % p for p in ports) + "]"


def yaml_pp(pp):
    def one(u):
        c, ps = u
        if isinstance(ps, str):
            return "[%r, '%s']" % (c, ps)
        return "[%r, [%s]]" % (c, ", ".join("'%s'" % p for p in ps))

    if isinstance(pp, dict):
        return "{" + ", ".join("%d: [%s]" % (k, ", ".join(one(u) for u in v)) for k, v in pp.items()) + "}"
    return "[" + ", ".join(one(u) for u in pp) + "]"


def random_uop(rng, ports, dup=False):
    k = rng.choice([1, 1, 2, 2, 3, len(ports)])
    k = max(1, min(k, len(ports)))
    ps = rng.sample(ports, k)
    if dup and rng.random() < 0.3:
        ps = ps + [ps[0]]  # duplicate port (counted twice by the code)
    cycles = rng.choice(CYCLES)
    if all(len(p) == 1 for p in ps) and rng.random() < 0.5:
        return [cycles, "".join(ps)]
    return [cycles, ps]


def random_model(rng, n_forms=6, n_ports=None, max_uops=4, alternatives=False, dup=False, zero_forms=True):
    """Synthetic port model.  Zero-throughput forms (not summed into the totals) with and without micro-ops,
    every other form has throughput > 0."""
    pool = rng.choice(PORT_NAME_POOLS)
    n_ports = n_ports or rng.randint(2, 8)
    ports = pool[:n_ports]
    forms = []
    for i in range(n_forms):
        if zero_forms and rng.random() < 0.15:
            # throughput 0.0: the line is shown but not summed.  Most shipped forms of this kind (jumps) carry no
            # micro-ops, but some do (zen3: `jne` with [[1, ['6', '10']]]), so both kinds are generated
            zpp = [] if rng.random() < 0.4 else [random_uop(rng, ports, False) for _ in range(rng.randint(1, 2))]
            forms.append({"name": mnemonic(i), "pp": zpp, "tp": 0.0, "lat": 0})
            continue
        nu = rng.randint(1, max_uops)
        pp = [random_uop(rng, ports, dup) for _ in range(nu)]
        if alternatives and rng.random() < 0.3:
            pp = {0: pp, 1: [random_uop(rng, ports, dup) for _ in range(rng.randint(1, max_uops))]}
        total = sum(u[0] for u in (pp[0] if isinstance(pp, dict) else pp))
        tp = rng.choice([total, max(0.25, total / 2), 1.0]) if total > 0 else 1.0
        forms.append({"name": mnemonic(i), "pp": pp, "tp": tp, "lat": rng.choice([0, 1, 3, 4.0])})
    return {"ports": ports, "forms": forms}


def model_yaml(model, arch_code="SYN"):
    out = [
        "osaca_version: 0.5.0", "micro_architecture: synthetic", "arch_code: %s" % arch_code, "isa: x86",
        "ROB_size: 100", "retired_uOps_per_cycle: 4", "scheduler_size: 50", "hidden_loads: false",
        "load_latency: {gpr: 4.0, mm: 4.0, xmm: 4.0, ymm: 4.0, zmm: 4.0}",
        "load_throughput: []",
        "load_throughput_default: [[1, ['%s']]]" % model["ports"][0],
        "store_throughput: []",
        "store_throughput_default: [[1, ['%s']]]" % model["ports"][-1],
        "store_to_load_forward_latency: 0.0",
        "ports: %s" % yaml_ports(model["ports"]),
        "port_model_scheme: ~",
        "instruction_forms:",
    ]
    for f in model["forms"]:
        out += [
            "- name: %s" % f["name"], "  operands:", "  - class: register", "    name: gpr",
            "  - class: register", "    name: gpr",
            "  latency: %r" % f["lat"], "  port_pressure: %s" % yaml_pp(f["pp"]),
            "  throughput: %r" % f["tp"], "  uops: 1",
        ]
    return "\n".join(out) + "\n"


def write_model(model, directory, name):
    path = os.path.join(directory, name + ".yml")
    with open(path, "w") as f:
        f.write(model_yaml(model))
    return path


def random_kernel(rng, model, length):
    lines = []
    for _ in range(length):
        f = rng.choice(model["forms"])
        a, b = rng.sample(REGS, 2)
        lines.append("%s %%%s, %%%s" % (f["name"], a, b))
    return lines


def resolve_uops(model, pp, mult=1):
    """micro-ops of a raw pp value as (cycles, mult, [port indices]) -- the oracle's own resolution"""
    ports = model["ports"]
    out = []
    for c, ps in pp:
        items = list(ps) if isinstance(ps, str) else list(ps)
        out.append((c, mult, [ports.index(p) for p in items]))
    return out


def enc_uops(uops):
    from harness.core import frac

    return "|".join("%s:%s:%s" % (frac(c), frac(m), ",".join(str(i) for i in idx)) for c, m, idx in uops)
