"""Shipped kernels (examples/ and tests/test_files) with their ISA, and model lists per ISA."""
import glob
import os

from harness import core

X86_ARCHS = ["snb", "ivb", "hsw", "icl", "icx", "spr", "zen1", "zen2", "zen3", "zen4"]
A64_ARCHS = ["a64fx", "a72", "m1", "n1", "tsv110", "tx2", "v2"]


def archs_of(isa, quick=False):
    have = set(core.shipped_archs())
    lst = [a for a in (X86_ARCHS if isa == "x86" else A64_ARCHS) if a in have]
    if quick:
        pick = ["zen2", "icx"] if isa == "x86" else ["tx2", "a64fx"]
        return [a for a in pick if a in lst] or lst[:2]
    return lst


def real_kernels():
    """[(path, isa)] of every shipped example / test kernel (marked kernels; whole file otherwise)."""
    out = []
    for f in sorted(glob.glob(os.path.join(core.REPO, "examples", "*", "*.s"))):
        base = os.path.basename(f)
        isa = "aarch64" if ".tx2." in base or ".a64fx." in base or "arm" in base else "x86"
        out.append((f, isa))
    for name, isa in [("kernel_x86.s", "x86"), ("kernel_x86_memdep.s", "x86"), ("triad_x86_iaca.s", "x86"),
                      ("kernel_aarch64.s", "aarch64"), ("kernel_aarch64_deps.s", "aarch64"),
                      ("kernel_aarch64_memdep.s", "aarch64"), ("kernel_aarch64_sve.s", "aarch64"),
                      ("triad_arm_iaca.s", "aarch64")]:
        p = os.path.join(core.REPO, "tests", "test_files", name)
        if os.path.exists(p):
            out.append((p, isa))
    return out


def load_kernel(path, isa):
    """parse + reduce to the marked section with the real code; returns (parser, kernel)."""
    from osaca.parser import ParserAArch64, ParserX86ATT
    from osaca.semantics import reduce_to_section

    parser = ParserX86ATT() if isa == "x86" else ParserAArch64()
    with open(path) as f:
        code = f.read()
    parsed = parser.parse_file(code)
    kernel = reduce_to_section(parsed, isa)
    return parser, kernel
