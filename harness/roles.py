"""Curated vocabulary of real instructions with architecturally known operand roles (C03 oracle).

Each template: (format, reads, writes, flags_written[, flags_read]) where reads/writes list operand
placeholders A, B, C (registers) and M (memory operand: its address registers are always read);
flags_written is False, True (= every status flag of the ISA) or a set of flag names, flags_read a set of
flag names (Intel SDM / Arm ARM condition tables).
The reference read-after-write relation is computed from these roles and the architectural register
families only -- nothing from OSACA's ISA database or dependency code is used.  Flags are separate
architectural registers (CF, OF, SF, ZF, AF, PF on x86; N, Z, C, V on AArch64).

`flag_exact` templates are the ones whose flag behaviour the vocabulary vouches for; kernels analysed WITH flag
dependencies are drawn from these only (the x86 zeroing idioms `xor r,r` architecturally write the flags, but
OSACA's ISA database carries no flag data for the logical instructions: observed, outside the vocabulary).
"""
X86_FLAGS = frozenset(["CF", "OF", "SF", "ZF", "AF", "PF"])
NOCF = X86_FLAGS - {"CF"}
A64_FLAGS = frozenset(["N", "Z", "C", "V"])
# x86 condition -> flags tested (SDM vol. 1, appendix B)
X86_CC = {"b": "CF", "ae": "CF", "c": "CF", "nc": "CF", "e": "ZF", "ne": "ZF", "z": "ZF", "nz": "ZF", "be": "CF ZF", "a": "CF ZF",
          "s": "SF", "ns": "SF", "o": "OF", "no": "OF", "l": "SF OF", "nl": "SF OF", "ge": "SF OF", "nge": "SF OF",
          "le": "ZF SF OF", "nle": "ZF SF OF", "g": "ZF SF OF", "ng": "ZF SF OF", "p": "PF", "np": "PF"}
# AArch64 condition -> flags tested (Arm ARM C1.2.4)
A64_CC = {"eq": "Z", "ne": "Z", "cs": "C", "hs": "C", "cc": "C", "lo": "C", "mi": "N", "pl": "N", "vs": "V", "vc": "V",
          "hi": "C Z", "ls": "C Z", "ge": "N V", "lt": "N V", "gt": "N V Z", "le": "N V Z"}

# x86 AT&T: sources first, destination last
X86 = [
    # fmt, reads, writes, flags_written
    ("addq {A}, {B}", "AB", "B", True), ("subq {A}, {B}", "AB", "B", True), ("addl {A32}, {B32}", "AB", "B", True),
    ("movq {A}, {B}", "A", "B", False), ("movl {A32}, {B32}", "A", "B", False),
    ("addq ${I}, {B}", "B", "B", True), ("subq ${I}, {B}", "B", "B", True),
    ("incq {B}", "B", "B", NOCF), ("decq {B}", "B", "B", NOCF),          # inc/dec leave CF alone
    ("cmpq {A}, {B}", "AB", "", True), ("testq {A}, {B}", "AB", "", True),
    ("leaq {I}({A}), {B}", "A", "B", False),
    ("vaddpd {X}, {Y}, {Z}", "XY", "Z", False), ("vmulpd {X}, {Y}, {Z}", "XY", "Z", False), ("vsubpd {X}, {Y}, {Z}", "XY", "Z", False),
    ("vfmadd231pd {X}, {Y}, {Z}", "XYZ", "Z", False), ("vfmadd213pd {X}, {Y}, {Z}", "XYZ", "Z", False),
    ("addsd {X}, {Z}", "XZ", "Z", False), ("mulsd {X}, {Z}", "XZ", "Z", False), ("addpd {X}, {Z}", "XZ", "Z", False),
    ("vmovapd {X}, {Z}", "X", "Z", False), ("movapd {X}, {Z}", "X", "Z", False),
    ("vmovapd {I}({A}), {Z}", "A", "Z", False), ("vmovapd {X}, {I}({A})", "XA", "", False),
    ("movq {I}({A}), {B}", "A", "B", False), ("movq {A}, {I}({B})", "AB", "", False),
    ("vmovsd {I}({A},{B},8), {Z}", "AB", "Z", False), ("vmovsd {X}, {I}({A},{B},8)", "XAB", "", False),
    ("vaddpd {I}({A}), {Y}, {Z}", "AY", "Z", False), ("vfmadd231pd {I}({A}), {Y}, {Z}", "AYZ", "Z", False),
    ("addq {I}({A}), {B}", "AB", "B", True),
    ("vxorpd {X}, {X}, {X}", "", "X", False), ("xorl {A32}, {A32}", "", "A", True),
    ("pxor {X}, {X}", "", "X", False), ("xorps {X}, {X}", "", "X", False),
    ("vxorpd {X}, {Y}, {Z}", "XY", "Z", False),
    # flag readers: cmovcc reads its condition's flags, the source and (merging) the destination; sbb reads CF
    ("cmov{CC} {A}, {B}", "AB", "B", False, "CC"), ("cmov{CC} {A}, {B}", "AB", "B", False, "CC"),
    ("cmov{CC} {I}({A}), {B}", "AB", "B", False, "CC"),
    ("sbbq {A}, {B}", "AB", "B", True, {"CF"}),
]
X86_NOT_FLAG_EXACT = ("xorl",)

# AArch64: destination first
A64 = [
    ("add {A}, {B}, {C}", "BC", "A", False), ("sub {A}, {B}, {C}", "BC", "A", False), ("mul {A}, {B}, {C}", "BC", "A", False),
    ("add {A}, {B}, #{I}", "B", "A", False), ("sub {A}, {B}, #{I}", "B", "A", False),
    ("adds {A}, {B}, {C}", "BC", "A", True), ("subs {A}, {B}, #{I}", "B", "A", True),
    ("mov {A}, {B}", "B", "A", False), ("cmp {A}, {B}", "AB", "", True),
    ("fadd {X}, {Y}, {Z}", "YZ", "X", False), ("fmul {X}, {Y}, {Z}", "YZ", "X", False), ("fsub {X}, {Y}, {Z}", "YZ", "X", False),
    ("fmadd {X}, {Y}, {Z}, {W}", "YZW", "X", False),
    ("fmla {VX}, {VY}, {VZ}", "XYZ", "X", False), ("fadd {VX}, {VY}, {VZ}", "YZ", "X", False),
    ("ldr {X}, [{A}, #{I}]", "A", "X", False), ("ldr {X}, [{A}, {B}, lsl #3]", "AB", "X", False),
    ("str {X}, [{A}, #{I}]", "XA", "", False), ("str {X}, [{A}, {B}, lsl #3]", "XAB", "", False),
    ("ldr {X}, [{A}], #{I}", "A", "XA", False), ("ldr {X}, [{A}, #{I}]!", "A", "XA", False),
    ("str {X}, [{A}], #{I}", "XA", "A", False), ("str {X}, [{A}, #{I}]!", "XA", "A", False),
    ("ldp {X}, {Y}, [{A}, #{I}]", "A", "XY", False), ("stp {X}, {Y}, [{A}, #{I}]", "XYA", "", False),
    # SIMD structure loads: post-indexed by an immediate or by a REGISTER {P} (the base is read, and written back by an
    # amount that only the register knows).  {P} is drawn from registers that no template writes: OSACA does not count
    # the post-index register among the sources (observed, notes/C03Roles.md), so a producer of {P} is left out here.
    ("ld1 {{{VX}}}, [{A}], {P}", "AP", "XA", False), ("ld1 {{{VX}}}, [{A}], {P}", "AP", "XA", False),
    ("ld1r {{{VX}}}, [{A}], {P}", "AP", "XA", False), ("ld1 {{{VX}}}, [{A}], #16", "A", "XA", False),
    ("ld1 {{{VX}}}, [{A}]", "A", "X", False),
    # the stack pointer as an ordinary register, as memory base and with write-back
    ("sub sp, sp, #{I}", "S", "S", False), ("add sp, sp, #{I}", "S", "S", False), ("mov {A}, sp", "S", "A", False),
    ("add {A}, sp, #{I}", "S", "A", False), ("str {X}, [sp, #{I}]", "XS", "", False), ("ldr {X}, [sp, #{I}]", "S", "X", False),
    ("stp {X}, {Y}, [sp, #-{I}]!", "XYS", "S", False), ("ldp {X}, {Y}, [sp], #{I}", "S", "XYS", False),
    # flag readers / further writers
    ("csel {A}, {B}, {C}, {CC}", "BC", "A", False, "CC"), ("cset {A}, {CC}", "", "A", False, "CC"),
    ("csinc {A}, {B}, {C}, {CC}", "BC", "A", False, "CC"),
    ("cmn {A}, {B}", "AB", "", True), ("tst {A}, {B}", "AB", "", True), ("ands {A}, {B}, {C}", "BC", "A", True),
]

X86_FAMS = [["rax", "eax"], ["rbx", "ebx"], ["rcx", "ecx"], ["rdx", "edx"], ["rsi", "esi"], ["rdi", "edi"], ["rbp", "ebp"],
            ["r8", "r8d"], ["r9", "r9d"], ["r10", "r10d"]]


def _flag_sets(tpl, isa, rng):
    """(format with the condition filled in, flags written, flags read) of one template"""
    fmt, fw = tpl[0], tpl[3]
    fr = tpl[4] if len(tpl) > 4 else ()
    allf = X86_FLAGS if isa == "x86" else A64_FLAGS
    if fw is True:
        fw = allf
    elif not fw:
        fw = ()
    if fr == "CC":
        table = X86_CC if isa == "x86" else A64_CC
        cc = rng.choice(sorted(table))
        fmt = fmt.replace("{CC}", cc)
        fr = table[cc].split()
    return fmt, set(("F", f) for f in fw), set(("F", f) for f in fr)


def gen(rng, isa, n, npool=3, flags=False):
    """Returns (lines, roles) with roles[i] = (reads:set, writes:set) over architectural register ids; a flag is the
    id ("F", name).  With `flags` (kernels analysed with flag dependencies) only flag-exact templates are drawn and
    flag readers are drawn more often."""
    lines, roles = [], []
    if isa == "x86":
        gp = rng.sample(range(len(X86_FAMS)), npool)
        vp = rng.sample(range(16), npool)
        pool = [t for t in X86 if not (flags and t[0].split()[0] in X86_NOT_FLAG_EXACT)]
        if flags:
            pool = pool + [t for t in pool if len(t) > 4 or t[3]] * 2
        for _ in range(n):
            tpl = rng.choice(pool)
            rd, wr = tpl[1], tpl[2]
            fmt, fws, frs = _flag_sets(tpl, isa, rng)
            b = {k: rng.choice(gp) for k in "AB"}
            v = {k: rng.choice(vp) for k in "XYZ"}
            # equal operands of sub/xor forms are dependency-breaking idioms: only the explicit idiom templates use them
            if fmt.split()[0].startswith(("sub", "xor", "vsub", "vxor", "pxor")) and "{X}, {X}" not in fmt and "{A32}, {A32}" not in fmt:
                while b["A"] == b["B"] and npool > 1:
                    b["B"] = rng.choice(gp)
                while v["X"] == v["Y"] and npool > 1:
                    v["Y"] = rng.choice(vp)
                while v["X"] == v["Z"] and "{Y}" not in fmt and npool > 1:
                    v["Z"] = rng.choice(vp)
            vec = rng.choice(["xmm", "xmm", "ymm"])
            if "sd " in fmt or fmt.startswith(("addpd", "movapd", "pxor", "xorps")):
                vec = "xmm"
            sub = {"A": "%" + X86_FAMS[b["A"]][0], "B": "%" + X86_FAMS[b["B"]][0], "A32": "%" + X86_FAMS[b["A"]][1],
                   "B32": "%" + X86_FAMS[b["B"]][1], "X": "%%%s%d" % (vec, v["X"]), "Y": "%%%s%d" % (vec, v["Y"]),
                   "Z": "%%%s%d" % (vec, v["Z"]), "I": str(rng.choice([8, 16, 64]))}
            lines.append(fmt.format(**sub))
            ids = {"A": ("g", b["A"]), "B": ("g", b["B"]), "X": ("v", v["X"]), "Y": ("v", v["Y"]), "Z": ("v", v["Z"])}
            reads = {ids[c] for c in rd} | frs
            writes = {ids[c] for c in wr} | fws
            roles.append((reads, writes))
    else:
        gp = rng.sample(range(1, 12), npool)
        vp = rng.sample(range(16), npool)
        pool = list(A64)
        if flags:
            pool = pool + [t for t in A64 if len(t) > 4 or t[3]] * 2
        for _ in range(n):
            tpl = rng.choice(pool)
            rd, wr = tpl[1], tpl[2]
            fmt, fws, frs = _flag_sets(tpl, isa, rng)
            b = {k: rng.choice(gp) for k in "ABC"}
            v = {k: rng.choice(vp) for k in "XYZW"}
            w = rng.choice(["x", "x", "w"]) if "[" not in fmt else "x"
            fp = rng.choice(["d", "d", "s", "q"]) if fmt.split()[0] in ("ldr", "str", "ldp", "stp") else rng.choice(["d", "s"])
            sub = {"A": "%s%d" % (w if "[" not in fmt else "x", b["A"]), "B": "%s%d" % (w if "[" not in fmt else "x", b["B"]),
                   "C": "%s%d" % (w, b["C"]), "X": "%s%d" % (fp, v["X"]), "Y": "%s%d" % (fp, v["Y"]), "Z": "%s%d" % (fp, v["Z"]),
                   "W": "%s%d" % (fp, v["W"]), "VX": "v%d.2d" % v["X"], "VY": "v%d.2d" % v["Y"], "VZ": "v%d.2d" % v["Z"],
                   "I": str(rng.choice([8, 16, 32]))}
            pidx = rng.choice([12, 13, 14, 15])                      # post-index register: outside the pool 1..11
            sub["P"] = "x%d" % pidx
            lines.append(fmt.format(**sub))
            ids = {"A": ("g", b["A"]), "B": ("g", b["B"]), "C": ("g", b["C"]), "X": ("v", v["X"]), "Y": ("v", v["Y"]),
                   "Z": ("v", v["Z"]), "W": ("v", v["W"]), "S": ("g", 31), "P": ("g", pidx)}
            reads = {ids[c] for c in rd} | frs
            writes = {ids[c] for c in wr} | fws
            roles.append((reads, writes))
    return lines, roles


def writeback_regs(line, roles_i):
    """architectural ids written by `line` through address write-back (pre-index `]!` / post-index `], #imm` or `], xN`)"""
    if "]!" not in line and "]," not in line:
        return set()
    base = line.split("[")[1].split("]")[0].split(",")[0].strip()
    if base == "sp":
        return {("g", 31)}
    return {("g", int(base[1:]))} if base[:1] in "xw" and base[1:].isdigit() else set()


def reference_raw_regs(roles, flags=False):
    """{(i, j): set of architectural ids through which j depends on i}"""
    out = {}
    for i, (_, wi) in enumerate(roles):
        for r in wi:
            if r[0] == "F" and not flags:
                continue
            for j in range(i + 1, len(roles)):
                rj, wj = roles[j]
                if r in rj:
                    out.setdefault((i, j), set()).add(r)
                if r in wj:
                    break
    return out


def reference_raw(roles, flags=False):
    """{(i, j)} (0-based positions): j reads something i writes, nothing in between overwrites it."""
    out = set()
    for i, (_, wi) in enumerate(roles):
        for r in wi:
            if r[0] == "F" and not flags:
                continue
            for j in range(i + 1, len(roles)):
                rj, wj = roles[j]
                if r in rj:
                    out.add((i, j))
                if r in wj:
                    break
    return out
