"""Shared helpers of C01 / C02 / C15: YAML value encoding for the driver, collection of the raw
values a model hands to the costing code, and the `average_port_pressure` correspondence."""
import glob
import os
from fractions import Fraction

from harness import core
from harness.core import esc, frac


def yenc(v):
    """Encode a YAML value for the driver (see lean/OsacaVerif/Driver/YCodec.lean)."""
    if v is None:
        return "N"
    if isinstance(v, bool):
        return "T" if v else "F"
    if isinstance(v, int):
        return "R%d;" % v
    if isinstance(v, float):
        fr = Fraction(repr(v))  # the decimal text of the YAML scalar (shortest round-trip repr)
        return "R%s;" % (str(fr.numerator) if fr.denominator == 1 else "%d/%d" % (fr.numerator, fr.denominator))
    if isinstance(v, str):
        return "S" + ".".join(str(ord(c)) for c in v) + ";"
    if isinstance(v, (list, tuple)):
        return "L" + "".join(yenc(e) for e in v) + "E"
    if isinstance(v, dict):
        return "M" + "".join(yenc(k) + yenc(x) for k, x in v.items()) + "E"
    return "S63;"


def canon(v):
    if isinstance(v, (list, tuple)):
        return ("L",) + tuple(canon(e) for e in v)
    if isinstance(v, dict):
        return ("M",) + tuple((canon(k), canon(x)) for k, x in v.items())
    if isinstance(v, bool):
        return ("bool", v)
    if isinstance(v, (int, float)):
        return ("num", float(v))     # ruamel's round-trip scalar classes compare like the plain numbers
    if isinstance(v, str):
        return ("str", str(v))
    return (type(v).__name__, v)


def load_raw(arch):
    import ruamel.yaml

    y = ruamel.yaml.YAML(typ="safe")
    with open(os.path.join(core.REPO, "osaca", "data", arch + ".yml"), encoding="utf-8") as f:
        return y.load(f)


def operand_sig(e):
    out = []
    for o in e.get("operands") or []:
        if not isinstance(o, dict):
            out.append("?")
            continue
        c = o.get("class")
        if c == "register":
            out.append("reg:%s" % (o.get("name") or o.get("prefix")) + (("." + str(o.get("shape"))) if o.get("shape") else ""))
        elif c == "memory":
            out.append("mem")
        elif c == "immediate":
            out.append("imd")
        else:
            out.append(str(c))
    return "_".join(out)


def costed_values(raw):
    """[(where, value)] for every micro-op list the costing code may consume, with a locator."""
    out = []
    for i, e in enumerate(raw.get("instruction_forms") or []):
        pp = e.get("port_pressure")
        if pp is not None:
            name = e.get("name")
            out.append(({"kind": "form", "index": i, "mnemonic": name if isinstance(name, str) else list(name or []),
                         "operands": operand_sig(e)}, pp))
    for k in ("load_throughput", "store_throughput"):
        for i, r in enumerate(raw.get(k) or []):
            out.append(({"kind": k, "index": i}, r.get("port_pressure")))
    for k in ("load_throughput_default", "store_throughput_default"):
        if k in raw:
            out.append(({"kind": k}, raw[k]))
    return out


def impl_average(mm, pp):
    """Outcome of the real average_port_pressure: ('ok', [floats]) or ('err', class name)."""
    try:
        v = mm.average_port_pressure(pp)
        return ("ok", [float(x) for x in v])
    except Exception as e:  # noqa
        return ("err", type(e).__name__)


def close(a, b, tol=1e-9):
    return abs(float(a) - float(b)) <= tol * max(1.0, abs(float(a)), abs(float(b)))


def compare_avg(reply, impl):
    """driver reply of `avgY` vs impl outcome; None if they agree, else description"""
    kind = reply.split(" ", 1)[0]
    if kind == "ok":
        if impl[0] != "ok":
            return "model ok, impl raised %s" % impl[1]
        vals = reply.split(" ", 1)[1].split(",") if " " in reply and reply.split(" ", 1)[1] else []
        if len(vals) != len(impl[1]):
            return "length %d vs %d" % (len(vals), len(impl[1]))
        for i, (m, x) in enumerate(zip(vals, impl[1])):
            if not close(Fraction(m), x):
                return "port %d: model %s impl %r" % (i, m, x)
        return None
    if kind == "err":
        return None if impl[0] == "err" else "model error (%s), impl ok %r" % (reply, impl[1])
    return "driver reply %r" % reply


def shipped_archs():
    return core.shipped_archs()
