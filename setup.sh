#!/bin/sh
# MANIFEST.setup_cmd: build the framework from files on disk only (offline).
set -e
cd "$(dirname "$0")"
/venv/bin/python -W ignore tools/translate.py || true   # a failing generator is reported by the checks
cd lean
lake build OsacaVerif driver
